#!/usr/bin/env python3
"""Translator route for the compile / serialise group: regenerates
`lean/RsddModel/Model/GenCompile.lean` from the Rust text on every run; `Props/TieCompile.lean`
proves the regenerated definitions equal to the hand-written model (Model/BddCompile.lean,
Model/Serialize.lean).

Every function is translated into the monad `Option (… × value)`:
  `none`  = a panic of the Rust (`v[i]` out of range, `unwrap()` of `None`, `todo!()`, `panic!`)
            or a builder operation that ran out of fuel (exactly the convention of the model);
  builder state (`&'a self` of a `BottomUpBuilder`) = an explicit `s : σ`, threaded left to right
            in evaluation order through `O.and/or/iff/xor/ite` (record `Compile.Ops`);
  `&mut` parameters are returned next to the value; mutable locals are re-bound (SSA).
Statements are translated one by one in continuation-passing style: `let`, assignment, `if` /
`if let` / `match` (arm by arm, guards become `if`), early `return`, `for` (↦ `TieAuxC.forIn`, with
`break` ↦ `.done`, `continue` ↦ `.yield`; the body is a separate generated definition),
`while` (↦ `TieAuxC.whileFuel`), self-recursion (structural on an inductive argument, or with an
explicit fuel argument that is consumed on the paths that recurse).

Mapping table (trusted, kept small)
  self.and/or/iff/xor/ite(a..)    ↦ O.and s a ..   (effect: new state)      self.var(l,p) ↦ O.var l p
  self.negate(a) ↦ O.neg a     self.true_ptr()/BddPtr::true_ptr() ↦ O.tru   false_ptr ↦ O.fls
  p.count_nodes() ↦ O.size p   VarLabel::new(e), `e as T`, Box::new(e), *e, &e, e.as_ref(), .iter(), .clone(),
  .to_vec(), .clauses(), .value_usize(), .collect(), .into_iter(), .cloned() ↦ e
  lit.label() ↦ lit.var        lit.polarity() ↦ lit.pol          assgn.get(x) ↦ assgn x   (PModel)
  v.is_empty() ↦ v.isEmpty     v.len() ↦ v.length / a.size / h.len       v[i] ↦ v[i]? (none = panic)
  v.push(e) ↦ v ++ [e]  (Vec as List) | a.push e (Vec as Array)          Vec::new() / with_capacity ↦ [] | #[]
  v.split_at(k) ↦ (v.take k, v.drop k)      it.skip(k) ↦ it.drop k       it.any(|x| e) ↦ it.any fun x => e
  it.fold(init, |a, x| e) ↦ it.foldl (fun a x => e) init                 o.unwrap() ↦ match o (none = panic)
  o.unwrap_or_else(f) ↦ match o with some x => x | none => f()
  v.sort_by(<closure>) ↦ v := perm v   (the comparator is NOT translated: the permutation is a parameter, as in the model)
  BinaryHeap::new() ↦ AHeap.new    h.push(CompiledCNF{ptr,sz}) ↦ h.push (ptr, sz)    h.pop().unwrap() ↦ AHeap.pop strat h
  e.ptr / e.sz of a heap entry ↦ e.1 / e.2       `while h.len() > k` runs with fuel h.len()
  table.contains_key(&k) ↦ (assocGet table k).isSome    table.get(&k) ↦ assocGet table k   table.insert(k,v) ↦ (k,v) :: table
  HashMap::new() ↦ []     values.get(&x) (total assignment of `eval`) ↦ some (values x)
  BddPtr::Reg(n) | BddPtr::Compl(n) ↦ .node c v lo hi with  n ↦ .node false v lo hi (the key), bdd.is_neg() ↦ c,
  bdd.low_raw() ↦ lo, bdd.high_raw() ↦ hi, n.var ↦ v
  enum constructors / patterns: see ENUMS below (field order of struct variants; `cutset`, `vars` of DTree must be `_`)
  it.map(|x| e) ↦ it.map fun x => e      it.reduce(f) ↦ TieAuxC.reduce f it      o.unwrap_or(d) ↦ o.getD d
  v.dedup_by_key(|x| e) ↦ v := TieAuxC.dedupByKey (fun x => e) v     Self::or / Self::and … as function values ↦ fun a b => Plan.or a b
  sexpr.variable_mapping() ↦ Ser.LogicalSExpr.variableMapping sexpr   (NOT translated: sort + HashMap::from_iter of the std library)
  HashSet of names (unique_variables) ↦ List (only membership matters): HashSet::new() ↦ [], HashSet::from([s]) ↦ [s],
  a.union(&b) ↦ a ++ b
"""
import os, re, sys

sys.path.insert(0, os.path.dirname(os.path.abspath(__file__)))
from rustmini_compile import Untranslatable, find_fn, parse_body, parse_params, strip_comments  # noqa: E402

ROOT = os.path.dirname(os.path.dirname(os.path.abspath(__file__)))
REPO = os.environ.get("VERIF_REPO", "/repo")
OUT = os.path.join(ROOT, "lean", "RsddModel", "Model", "GenCompile.lean")


# ------------------------------------------------------------------ values
class V:
    def __init__(self, term, ty=None, attrs=None, tup=None):
        self.term, self.ty, self.attrs, self.tup = term, ty, attrs or {}, tup


def atomic(t):
    return re.match(r"^[A-Za-z0-9_.'σ?!\[\]#]+$", t) is not None


def balanced(s):
    d = 0
    for ch in s:
        if ch in "([":
            d += 1
        elif ch in ")]":
            d -= 1
            if d < 0:
                return False
    return d == 0


def paren(t):
    if atomic(t) or (t[0] == "(" and t[-1] == ")" and balanced(t[1:-1])) or \
            (t[0] == "[" and t[-1] == "]" and balanced(t[1:-1])) or (t[0] == "⟨" and t[-1] == "⟩" and "⟨" not in t[1:]):
        return t
    return "(" + t + ")"


def ind(text, n=2):
    pad = " " * n
    return "\n".join(pad + ln if ln else ln for ln in text.split("\n"))


def nested(text):
    """a sub-term that may span several lines, in parentheses on its own lines"""
    if "\n" not in text and len(text) < 90 and atomic_or_app(text):
        return " " + text
    return "\n" + ind("(" + text + ")")


def atomic_or_app(t):
    return not re.match(r"^(match|if|let)\b", t)


# ------------------------------------------------------------------ enum tables (trusted)
# rust enum -> variant -> (lean constructor suffix, field names for struct variants or arity, ignored fields)
ENUMS = {
    "LogicalExpr": {"Literal": ("lit", 2), "Not": ("not", 1), "And": ("and", 2), "Or": ("or", 2), "Iff": ("iff", 2),
                    "Xor": ("xor", 2), "Ite": ("ite", ["guard", "thn", "els"])},
    "BottomUpPlan": {"And": ("and", 2), "Or": ("or", 2), "Iff": ("iff", 2), "Ite": ("ite", 3), "Not": ("not", 1),
                     "ConstTrue": ("constTrue", 0), "ConstFalse": ("constFalse", 0), "Literal": ("lit", 2)},
    "DTree": {"Node": ("node", ["l", "r"], ["cutset", "vars"]), "Leaf": ("leaf", ["clause"], ["cutset", "vars"])},
    "LogicalSExpr": {"True": ("tru", 0), "False": ("fls", 0), "Var": ("var", 1), "Not": ("not", 1), "Or": ("or", 2),
                     "And": ("and", 2), "Iff": ("iff", 2), "Xor": ("xor", 2), "Ite": ("ite", 3)},
    "SerBDDPtr": {"Ptr": ("ptr", ["index", "compl"]), "True": ("tru", 0), "False": ("fls", 0)},
    "SerSDDPtr": {"Ptr": ("ptr", ["index", "compl"]), "True": ("tru", 0), "False": ("fls", 0),
                  "Literal": ("lit", ["label", "polarity"])},
    "SerVTree": {"Leaf": ("leaf", 1), "Node": ("node", ["left", "right"])},
    "BTree": {"Leaf": ("leaf", 1), "Node": ("node", 3, [0])},
    "BddPtr": {"PtrTrue": ("tru", 0), "PtrFalse": ("fls", 0)},     # first positional field (the node data) must be `_`
}
# field types of constructors, for the variables a pattern binds: (lean type name) -> ctor -> [types]; "@" = the enum itself
CTOR_FIELD_TY = {
    "LogicalExpr": {"lit": ["Nat", "Bool"]},
    "BottomUpPlan": {"lit": ["Nat", "Bool"]},
    "DTree": {"leaf": ["Clause"]},
    "LogicalSExpr": {"var": ["String"]},
    "BTree": {"leaf": ["Nat"]},
}
STRUCTS = {"SerBDD": (["topvar", "low", "high"], "Ser.SerBdd"), "SDDAnd": (["prime", "sub"], "Ser.SddAnd"),
           "CompiledCNF": (["ptr", "sz"], None), "BDDSerializer": (["nodes", "roots"], "Ser.BddTable"),
           "VTreeSerializer": (["root"], None), "SDDSerializer": (["nodes", "roots"], "Ser.SddTable")}


class Cfg:
    def __init__(self, **kw):
        self.state = None          # lean name of the builder state
        self.muts = []             # `&mut` parameters (rust names), returned after the value
        self.enum_ty = {}          # rust enum name -> lean type (Self is resolved through `self_enum`)
        self.self_enum = None
        self.rec = None            # None | "structural" | "fuel"
        self.rec_names = []        # rust names under which the function calls itself
        self.fuel_of = None        # for callers of a fuel function: index of the argument whose length is the fuel
        self.extra = ""            # extra binders (strategy, permutation)
        self.assoc = {}            # rust name of a HashMap -> "assoc" | "total"
        self.ops = False           # `self` is a builder (record O)
        self.calls = {}            # rust callee name -> (lean name, kind) for calls of other generated functions
        self.ret_ty = None
        self.__dict__.update(kw)


class Cx:
    def __init__(self, cfg, env, st, ret, counter, aux, pure=False, loop=None, fuel=None):
        self.cfg, self.env, self.st, self.ret, self.counter, self.aux = cfg, dict(env), st, ret, counter, aux
        self.pure, self.loop, self.fuel = pure, loop, fuel
        self.mutual = []

    def fork(self, **kw):
        c = Cx(self.cfg, self.env, self.st, self.ret, self.counter, self.aux, self.pure, self.loop, self.fuel)
        c.mutual = self.mutual
        c.__dict__.update(kw)
        return c

    def fresh(self, base):
        base = re.sub(r"[^A-Za-z0-9_]", "", base) or "t"
        self.counter[0] += 1
        return "%s_%d" % (base, self.counter[0])


def enum_of(path, cx):
    """(rust enum name, variant) of a path like LogicalExpr::And / Self::ConstFalse / crate::util::btree::BTree::Leaf"""
    if len(path) < 2:
        return None
    en, var = path[-2], path[-1]
    if en == "Self":
        en = cx.cfg.self_enum
    if en in ENUMS and var in ENUMS[en]:
        return en, var
    return None


def lean_enum_ty(en, cx):
    if en in cx.cfg.enum_ty:
        return cx.cfg.enum_ty[en]
    raise Untranslatable("enum %s has no model type in this function" % en)


# ------------------------------------------------------------------ patterns
def sdd_view(pat, cx):
    """SddPtr patterns: PtrTrue/PtrFalse/Var(l,p) and the node views BDD(b)|ComplBDD(b) ↦ .bdd c l i lo hi,
    Reg(o)|Compl(o) ↦ .dec c i es (b, o become views: b.label()/low()/high(), o.iter(); SddPtr::BDD(b) ↦ .bdd false …)"""
    alts = pat[1] if pat[0] == "por" else [pat]
    if not all(a[0] == "pctor" and len(a[1]) == 2 and a[1][0] == "SddPtr" for a in alts):
        return None
    names = {a[1][1] for a in alts}
    if len(alts) == 1 and names <= {"PtrTrue", "PtrFalse"} and not alts[0][2]:
        return (".tru" if names == {"PtrTrue"} else ".fls"), {}
    if len(alts) == 1 and names == {"Var"} and len(alts[0][2]) == 2:
        t1, b1 = P(alts[0][2][0], cx, V("", "Nat"))
        t2, b2 = P(alts[0][2][1], cx, V("", "Bool"))
        b1.update(b2)
        return ".lit %s %s" % (t1, t2), b1
    for fam, kind in (({"BDD", "ComplBDD"}, "bdd"), ({"Reg", "Compl"}, "dec")):
        if names <= fam and all(len(a[2]) == 1 and a[2][0][0] in ("pvar", "pwild") for a in alts):
            bn = {a[2][0][1] for a in alts if a[2][0][0] == "pvar"}
            if len(bn) > 1 or len(alts) != len(names):
                return None
            cflag = cx.fresh("c") if len(names) == 2 else ("false" if names <= {"BDD", "Reg"} else "true")
            if kind == "bdd":
                l, i, lo, hi = cx.fresh("l"), cx.fresh("i"), cx.fresh("lo"), cx.fresh("hi")
                text = ".bdd %s %s %s %s %s" % (cflag, l, i, lo, hi)
                view = V("(Sdd.Ptr.bdd false %s %s %s %s)" % (l, i, lo, hi), "BinarySDD",
                         attrs={"label": V(l, "Nat"), "low": V(lo, "Sdd.Ptr"), "high": V(hi, "Sdd.Ptr")})
            else:
                i, es = cx.fresh("i"), cx.fresh("es")
                text = ".dec %s %s %s" % (cflag, i, es)
                view = V("(Sdd.Ptr.dec false %s %s)" % (i, es), "SddOr", attrs={"iter": V(es, "List (Sdd.Ptr × Sdd.Ptr)")})
            return text, ({bn.pop(): view} if bn else {})
    return None


def P(pat, cx, scrut=None):
    """pattern -> (lean pattern text, {rust var: V}); `scrut` = V of the scrutinee (for type information)"""
    k = pat[0]
    if "SddPtr" in cx.cfg.enum_ty and k in ("pctor", "por"):
        sv_ = sdd_view(pat, cx)
        if sv_ is not None:
            return sv_
    if k == "pwild":
        return "_", {}
    if k == "pref":
        return P(pat[1], cx, scrut)
    if k == "pvar":
        if pat[1] == "None":
            return "none", {}
        nm = cx.fresh(pat[1])
        return nm, {pat[1]: V(nm, scrut.ty if scrut else None)}
    if k == "plit":
        e = pat[1]
        if e[0] == "bool":
            return ("true" if e[1] else "false"), {}
        if e[0] == "num":
            return e[1], {}
        raise Untranslatable("literal pattern")
    if k == "ptuple":
        subs = scrut.tup if scrut is not None and scrut.tup and len(scrut.tup) == len(pat[1]) else [None] * len(pat[1])
        texts, binds = [], {}
        for p_, s_ in zip(pat[1], subs):
            t, b = P(p_, cx, s_)
            texts.append(t)
            binds.update(b)
        return "(" + ", ".join(texts) + ")", binds
    if k == "pslice":
        elt = None
        if scrut is not None and scrut.ty and scrut.ty.startswith("List "):
            elt = V("", scrut.ty[5:].strip("()"))
        texts, binds = [], {}
        for p_ in pat[1]:
            t, b = P(p_, cx, elt)
            texts.append(t)
            binds.update(b)
        return "[" + ", ".join(texts) + "]", binds
    if k in ("pctor", "pstruct"):
        path = pat[1]
        if path == ["Some"] and k == "pctor" and len(pat[2]) == 1:
            inner = None
            if scrut is not None and scrut.ty and scrut.ty.startswith("Option "):
                inner = V("", scrut.ty[7:].strip("()"))
            t, b = P(pat[2][0], cx, inner)
            return "some " + paren(t), b
        if path == ["None"]:
            return "none", {}
        if path[-1] in STRUCTS and k == "pstruct" and path[-1] == "CompiledCNF":
            fs = dict(pat[2])
            if set(fs) - {"ptr", "sz"}:
                raise Untranslatable("CompiledCNF pattern fields")
            t1, b1 = P(fs.get("ptr", ("pwild",)), cx, V("", "P"))
            t2, b2 = P(fs.get("sz", ("pwild",)), cx, V("", "Nat"))
            b1.update(b2)
            return "(%s, %s)" % (t1, t2), b1
        ev = enum_of(path, cx)
        if ev is None:
            raise Untranslatable("pattern constructor %s" % "::".join(path))
        en, var = ev
        spec = ENUMS[en][var]
        lty = lean_enum_ty(en, cx)
        ctor, shape = spec[0], spec[1]
        ignored = spec[2] if len(spec) > 2 else []
        ftys = CTOR_FIELD_TY.get(en, {}).get(ctor)
        if isinstance(shape, list):
            if k != "pstruct":
                raise Untranslatable("variant %s is a struct variant" % var)
            fs = dict(pat[2])
            for f in fs:
                if f not in shape and f not in ignored:
                    raise Untranslatable("unknown field %s of %s" % (f, var))
            for f in ignored:
                if f in fs and fs[f][0] != "pwild" and not (fs[f][0] == "pvar" and fs[f][1].startswith("_")):
                    raise Untranslatable("field `%s` of %s::%s is not part of the model" % (f, en, var))
            subpats = [fs.get(f, ("pwild",)) for f in shape]
        else:
            if k != "pctor" or len(pat[2]) != shape:
                raise Untranslatable("arity of %s::%s" % (en, var))
            subpats = list(pat[2])
            for i in sorted(ignored, reverse=True):
                if subpats[i][0] != "pwild":
                    raise Untranslatable("positional field %d of %s::%s is not part of the model" % (i, en, var))
                del subpats[i]
        texts, binds = [], {}
        for i, p_ in enumerate(subpats):
            fty = ftys[i] if ftys else lty
            t, b = P(p_, cx, V("", fty))
            texts.append(paren(t))
            binds.update(b)
        return (".%s %s" % (ctor, " ".join(texts))).strip(), binds
    if k == "por":
        alts = [P(a, cx, scrut) for a in pat[1]]
        # alternatives must bind the same rust names; lean wants the same lean names: re-run with shared names
        names = [sorted(b) for _, b in alts]
        if any(n != names[0] for n in names):
            raise Untranslatable("or-pattern binds different names")
        if not names[0]:
            return " | ".join(t for t, _ in alts), {}
        t0, b0 = alts[0]
        texts = [t0]
        for (t, b) in alts[1:]:
            for n in names[0]:
                t = re.sub(r"\b%s\b" % re.escape(b[n].term), b0[n].term, t)
            texts.append(t)
        return " | ".join(texts), b0
    raise Untranslatable("pattern kind " + k)


def is_bddptr_view(pat):
    """`BddPtr::Reg(n)`, `BddPtr::Compl(n)` or both or-ed: returns (set of variants, rust name of n)"""
    alts = pat[1] if pat[0] == "por" else [pat]
    vs, nm = set(), None
    for a in alts:
        if a[0] == "pctor" and len(a[1]) == 2 and a[1][0] == "BddPtr" and a[1][1] in ("Reg", "Compl") and len(a[2]) == 1 \
                and a[2][0][0] in ("pvar", "pwild"):
            vs.add(a[1][1])
            n = a[2][0][1] if a[2][0][0] == "pvar" else None
            if nm not in (None, n) and n is not None:
                return None
            nm = n or nm
        else:
            return None
    return vs, nm


# ------------------------------------------------------------------ expressions (continuation-passing)
IDENT_METHODS = {"iter", "into_iter", "as_ref", "clone", "to_vec", "clauses", "value_usize", "value", "collect", "cloned",
                 "copied", "to_owned", "as_slice"}
BUILDER_EFF = {"and": 2, "or": 2, "iff": 2, "xor": 2, "ite": 3}
PLAN_FNS = {"literal": ("lit", 2), "and": ("and", 2), "or": ("or", 2), "iff": ("iff", 2), "ite": ("ite", 3), "not": ("not", 1)}
CMP = {"<": "<", "<=": "≤", ">": ">", ">=": "≥", "==": "=", "!=": "≠"}


def elem_ty(ty):
    if ty == "Cnf":
        return "Clause"
    if ty == "Clause":
        return "Lit"
    if ty and ty.startswith("List "):
        return ty[5:].strip("()") if balanced(ty[5:].strip("()")) else ty[5:]
    return None


def ident_k(v, cx):
    return v.term


def pure_term(e, cx):
    """translate an effect-free expression to a lean term (raises if an effect is needed)"""
    sub = cx.fork(pure=True)
    out = []

    def k(v, c):
        out.append(v)
        return "\0HOLE\0"
    text = X(e, sub, k)
    if text != "\0HOLE\0" or len(out) != 1:
        raise Untranslatable("expression with effects where a pure one is needed")
    return out[0]


def cond_text(e, cx, k):
    """condition of an `if`/`while`: comparisons become propositions; k(text, cx)"""
    if e[0] == "bin" and e[1] in CMP:
        return X(e[2], cx, lambda a, c1: X(e[3], c1, lambda b, c2: k("%s %s %s" % (paren(a.term), CMP[e[1]], paren(b.term)), c2)))
    return X(e, cx, lambda v, c: k(v.term, c))


def ret_tuple(v, cx):
    parts = ([cx.st] if cx.cfg.state else []) + [v.term] + [cx.env[m].term for m in cx.cfg.muts]
    return "some " + (paren(parts[0]) if len(parts) == 1 else "(" + ", ".join(parts) + ")")


def contains_rec(node, cfg):
    if isinstance(node, tuple):
        if node and node[0] == "mcall" and node[1] == ("var", "self") and node[2] in cfg.rec_names:
            return True
        if node and node[0] == "call" and node[1][0] in ("path", "var") and \
                (node[1][1][-1] if node[1][0] == "path" else node[1][1]) in cfg.rec_names:
            return True
        return any(contains_rec(x, cfg) for x in node)
    if isinstance(node, list):
        return any(contains_rec(x, cfg) for x in node)
    return False


def bind_effect(call_text, cx, k, res_ty, with_state, n_muts=0, mut_names=(), tail_ok=True):
    """`match call with | none => none | some (s', r, m'..) => k r`"""
    if cx.pure:
        raise Untranslatable("effect in a pure context (closure / condition)")
    if tail_ok and getattr(k, "is_ret", False) and cx.loop is None and with_state == bool(cx.cfg.state) and \
            list(mut_names) == list(cx.cfg.muts):
        return call_text
    names = []
    if with_state:
        cx.st = cx.fresh("s")
        names.append(cx.st)
    r = cx.fresh("r")
    names.append(r)
    for m in mut_names:
        nm = cx.fresh(m)
        cx.env[m] = V(nm, cx.env[m].ty)
        names.append(nm)
    pat = names[0] if len(names) == 1 else "(" + ", ".join(names) + ")"
    rest = k(V(r, res_ty), cx)
    return "match %s with\n| none => none\n| some %s =>%s" % (call_text, pat, nested_rest(rest))


def nested_rest(rest):
    if "\n" not in rest and len(rest) < 100:
        return " " + rest
    return "\n" + ind(rest)


def open_fuel(cx):
    """consume one unit of fuel before the first recursive call on this path; returns wrapper(text)"""
    if cx.cfg.rec != "fuel" or cx.fuel is not None:
        return lambda t: t
    f = cx.fresh("fuel")
    cx.fuel = f
    return lambda t: "match fuel with\n| 0 => none\n| %s + 1 =>\n%s" % (f, ind(t))


def Xs(es, cx, k, acc=None):
    """evaluate a list of expressions left to right; k([V], cx)"""
    acc = acc or []
    if not es:
        return k(acc, cx)
    return X(es[0], cx, lambda v, c: Xs(es[1:], c, k, acc + [v]))


def lean_ctor(en, var, args, cx):
    spec = ENUMS[en][var]
    lty = lean_enum_ty(en, cx)
    t = "%s.%s" % (lty, spec[0])
    if args:
        t += " " + " ".join(paren(a.term) for a in args)
    return V(t if not args else "(" + t + ")", lty)


def closure_lambda(cl, cx, arg_tys):
    """pure closure -> lean `fun x y => body`"""
    if cl[0] == "path" and cx.cfg.self_enum == "BottomUpPlan" and len(cl[1]) == 2 and cl[1][0] in ("Self", "BottomUpPlan") \
            and cl[1][1] in PLAN_FNS:
        ctor, n = PLAN_FNS[cl[1][1]]
        lty = lean_enum_ty("BottomUpPlan", cx)
        xs = ["a%d" % i for i in range(n)]
        return "fun %s => %s.%s %s" % (" ".join(xs), lty, ctor, " ".join(xs)), lty
    if cl[0] == "path" or cl[0] == "var":
        raise Untranslatable("function value as closure")
    if cl[0] != "closure":
        raise Untranslatable("closure expected")
    sub = cx.fork(pure=True, loop=None)
    names = []
    for p_, ty in zip(cl[1], arg_tys + [None] * len(cl[1])):
        if p_[0] == "pref":
            p_ = p_[1]
        if p_[0] == "pwild":
            names.append("_")
            continue
        if p_[0] != "pvar":
            raise Untranslatable("closure parameter pattern")
        nm = sub.fresh(p_[1])
        sub.env[p_[1]] = V(nm, ty)
        names.append(nm)
    body = cl[2]
    out = []

    def k(v, c):
        out.append(v)
        return v.term
    text = X(body, sub, k) if body[0] != "block" else SEQ(body[1], body[2], sub, k)
    return "fun %s => %s" % (" ".join(names), text), (out[0].ty if out else None)


def X(e, cx, k):
    kind = e[0]
    if kind == "num":
        return k(V(e[1], "Nat"), cx)
    if kind == "bool":
        return k(V("true" if e[1] else "false", "Bool"), cx)
    if kind == "var":
        n = e[1]
        if n == "None":
            return k(V("none", None), cx)
        if n in cx.env:
            v = cx.env[n]
            if isinstance(v, tuple):
                raise Untranslatable("closure %s used as a value" % n)
            return k(v, cx)
        raise Untranslatable("unknown name %r" % n)
    if kind == "un":
        if e[1] in ("*", "&"):
            return X(e[2], cx, k)
        if e[1] == "!":
            return X(e[2], cx, lambda v, c: k(V("(!" + paren(v.term) + ")", "Bool"), c))
        raise Untranslatable("unary " + e[1])
    if kind == "cast":
        if e[2].strip() in ("usize", "u64", "u32"):
            return X(e[1], cx, k)
        raise Untranslatable("cast to " + e[2])
    if kind == "bin":
        op = e[1]
        if op in ("&&", "||"):
            b = pure_term(e[3], cx)   # the right operand must be effect free (short circuit)
            return X(e[2], cx, lambda a, c: k(V("%s %s %s" % (paren(a.term), op, paren(b.term)), "Bool"), c))
        if op in CMP:
            if op == "==":
                return X(e[2], cx, lambda a, c1: X(e[3], c1, lambda b, c2: k(V("%s == %s" % (paren(a.term), paren(b.term)), "Bool"), c2)))
            return X(e[2], cx, lambda a, c1: X(e[3], c1, lambda b, c2: k(V("decide (%s %s %s)" % (paren(a.term), CMP[op], paren(b.term)), "Bool"), c2)))
        if op in ("+", "-", "*", "/", "%"):
            return X(e[2], cx, lambda a, c1: X(e[3], c1, lambda b, c2: k(V("%s %s %s" % (paren(a.term), op, paren(b.term)), "Nat"), c2)))
        raise Untranslatable("operator " + op)
    if kind == "array":
        return Xs(e[1], cx, lambda vs, c: k(V("[" + ", ".join(v.term for v in vs) + "]",
                                              ("List " + paren(vs[0].ty)) if vs and vs[0].ty else None), c))
    if kind == "tuple":
        return Xs(e[1], cx, lambda vs, c: k(V("(" + ", ".join(v.term for v in vs) + ")", None, tup=vs), c))
    if kind == "field":
        def fk(v, c):
            if e[2] in v.attrs:
                return k(v.attrs[e[2]], c)
            if v.ty == "P × Nat" and e[2] in ("ptr", "sz"):
                return k(V("%s.%s" % (paren(v.term), "1" if e[2] == "ptr" else "2"), "P" if e[2] == "ptr" else "Nat"), c)
            raise Untranslatable("field ." + e[2])
        return X(e[1], cx, fk)
    if kind == "index":
        def ik(vs, c):
            if c.pure:
                raise Untranslatable("indexing in a pure context")
            r = c.fresh("x")
            rest = k(V(r, elem_ty(vs[0].ty)), c)
            return "match %s[%s]? with\n| none => none\n| some %s =>%s" % (paren(vs[0].term), vs[1].term, r, nested_rest(rest))
        return Xs([e[1], e[2]], cx, ik)
    if kind == "struct":
        name, fs = e[1], e[2]
        if name in STRUCTS:
            order, lty = STRUCTS[name]
            d = dict(fs)
            if sorted(d) != sorted(order):
                raise Untranslatable("fields of " + name)
            if name == "VTreeSerializer":
                return X(d["root"], cx, k)
            if name == "CompiledCNF":
                return Xs([d[f] for f in order], cx, lambda vs, c: k(V("(%s, %s)" % (vs[0].term, vs[1].term), "P × Nat"), c))
            return Xs([d[f] for f in order], cx, lambda vs, c: k(V("(⟨%s⟩ : %s)" % (", ".join(v.term for v in vs), lty), lty), c))
        # struct variant of an enum: the parser keeps only the last path segment; find the enum
        cands = [en for en in ENUMS if name in ENUMS[en] and isinstance(ENUMS[en][name][1], list) and en in cx.cfg.enum_ty]
        if len(cands) == 1:
            en = cands[0]
            order = ENUMS[en][name][1]
            d = dict(fs)
            if sorted(d) != sorted(order):
                raise Untranslatable("fields of %s::%s" % (en, name))
            return Xs([d[f] for f in order], cx, lambda vs, c: k(lean_ctor(en, name, vs, c), c))
        raise Untranslatable("struct literal " + name)
    if kind == "macro":
        if e[1] in ("todo", "panic", "unimplemented", "unreachable"):
            if cx.pure:
                raise Untranslatable("panic in a pure context")
            return "none"
        if e[1] == "matches":
            from rustmini_compile import Parser
            pr = Parser(e[2])
            scr = pr.expr()
            pr.eat(",")
            mp = pr.pattern()
            if not pr.at_end():
                raise Untranslatable("matches! with a guard")
            sv = pure_term(scr, cx)
            alts = mp[1] if mp[0] == "por" else [mp]
            texts = []
            for a_ in alts:
                t_, b_ = P(a_, cx.fork(), sv)
                texts.append(re.sub(r"\b[a-z]+_\d+\b", "_", t_))
            return k(V("(match %s with | %s => true | _ => false)" % (sv.term, " | ".join(texts)), "Bool"), cx)
        if e[1] == "vec":
            from rustmini_compile import Parser
            raw = e[2]
            if ";" in raw:
                raise Untranslatable("vec![x; n]")
            items, cur, depth = [], [], 0
            for t in raw:
                if t in "([{":
                    depth += 1
                elif t in ")]}":
                    depth -= 1
                if t == "," and depth == 0:
                    items.append(cur)
                    cur = []
                else:
                    cur.append(t)
            if cur:
                items.append(cur)
            asts = [Parser(it).expr() for it in items]
            return Xs(asts, cx, lambda vs, c: k(V("[" + ", ".join(v.term for v in vs) + "]",
                                                  "List " + paren(vs[0].ty) if vs and vs[0].ty else None), c))
        raise Untranslatable("macro %s!" % e[1])
    if kind == "block":
        sub = cx  # a block shares the mutable locals of its parent; its own `let`s shadow (names are fresh anyway)
        return SEQ(e[1], e[2], sub, k)
    if kind == "if":
        def ifk(ct, c):
            c1, c2 = c.fork(), c.fork()
            t = SEQ(e[2][1], e[2][2], c1, k)
            if e[3] is None:
                f = k(V("()", "Unit"), c2)
            elif e[3][0] == "block":
                f = SEQ(e[3][1], e[3][2], c2, k)
            else:
                f = X(e[3], c2, k)
            return "if %s then%s\nelse%s" % (ct, nested(t), nested(f))
        return cond_text(e[1], cx, ifk)
    if kind == "iflet":
        arms = [(e[1], None, e[3]), (("pwild",), None, e[4] if e[4] is not None else ("block", [], None))]
        return X_match(e[2], arms, cx, k)
    if kind == "match":
        return X_match(e[1], e[2], cx, k)
    if kind == "call":
        return X_call(e, cx, k)
    if kind == "mcall":
        return X_mcall(e, cx, k)
    if kind == "path":
        ev = enum_of(e[1], cx)
        if ev and ENUMS[ev[0]][ev[1]][1] == 0:
            return k(lean_ctor(ev[0], ev[1], [], cx), cx)
        raise Untranslatable("path " + "::".join(e[1]))
    if kind == "closure":
        raise Untranslatable("closure as a value")
    raise Untranslatable("expression kind " + kind)


def pure_match(e, cx):
    """`match` whose arms are all effect-free expressions, as one lean term"""
    sv = pure_term(e[1], cx)
    lines, ty = [], None
    for pat, guard, body in e[2]:
        if guard is not None:
            raise Untranslatable("guard")
        c = cx.fork()
        pt, binds = P(pat, c, sv)
        c.env.update(binds)
        bv = pure_term(body, c)
        ty = ty or bv.ty
        lines.append("| %s => %s" % (pt, bv.term))
        if pat[0] == "pwild":
            break
    return V("(match %s with %s)" % (sv.term, " ".join(lines)), ty)


def arm_body(body, cx, k):
    if body[0] == "block":
        return SEQ(body[1], body[2], cx, k)
    return X(body, cx, k)


def X_match(scrut_e, arms, cx, k):
    # tuple scrutinee: evaluate components, match on several discriminants
    def mk(sv, c):
        return match_arms(sv, arms, c, k)
    return X(scrut_e, cx, mk)


def covers_all(pats_texts, sv):
    """cheap exhaustiveness test for option scrutinees, to drop a redundant `_` arm"""
    heads = set()
    for t in pats_texts:
        for alt in t.split(" | "):
            heads.add(alt.split(" ")[0])
    return {"none", "some"} <= heads


def match_arms(sv, arms, cx, k):
    if not arms:
        raise Untranslatable("match without a total arm")
    scrut = ", ".join(v.term for v in sv.tup) if sv.tup else sv.term
    lines, seen = [], []
    p0, g0, b0 = arms[0]
    if g0 is None and p0[0] == "pwild":
        return arm_body(b0, cx.fork(), k)
    for i, (pat, guard, body) in enumerate(arms):
        c = cx.fork()
        view = is_bddptr_view(pat)
        if view and sv.ty == "Bdd.Ptr":
            vs, nm = view
            cv, vv, lo, hi = c.fresh("c"), c.fresh("v"), c.fresh("lo"), c.fresh("hi")
            cpat = cv if vs == {"Reg", "Compl"} else ("false" if vs == {"Reg"} else "true")
            ptext = ".node %s %s %s %s" % (cpat, vv, lo, hi)
            cterm = cv if vs == {"Reg", "Compl"} else cpat
            binds = {}
            if nm:
                binds[nm] = V("(Bdd.Ptr.node false %s %s %s)" % (vv, lo, hi), "Bdd.Ptr", attrs={"var": V(vv, "Nat")})
            # the scrutinee variable, seen through the pattern
            for rn, rv in list(c.env.items()):
                if isinstance(rv, V) and rv.term == sv.term:
                    c.env[rn] = V(sv.term, "Bdd.Ptr", attrs={"is_neg": V(cterm, "Bool"), "low_raw": V(lo, "Bdd.Ptr"),
                                                              "high_raw": V(hi, "Bdd.Ptr")})
        else:
            ptext, binds = P(pat, c, sv)
        if sv.tup and ptext.startswith("(") and pat[0] == "ptuple":
            ptext = ptext[1:-1]
        if sv.tup and pat[0] == "por":
            ptext = " | ".join(a[1:-1] if a.startswith("(") else a for a in ptext.split(" | "))
        is_wild = pat[0] == "pwild" or (pat[0] == "pvar" and pat[1] != "None")
        if is_wild and guard is None and seen and not sv.tup and covers_all(seen, sv):
            break   # redundant arm (lean rejects it)
        c.env.update(binds)
        if guard is None:
            lines.append("| %s =>%s" % (ptext, nested_rest(arm_body(body, c, k))))
            seen.append(ptext)
            if is_wild:
                break
        else:
            gt = pure_term(guard, c)
            c1, c2 = c.fork(), c.fork()
            yes = arm_body(body, c1, k)
            # the guard failed: the remaining arms, on the same scrutinee
            no = match_arms(sv, arms[i + 1:], c2, k)
            lines.append("| %s =>\n%s" % (ptext, ind("if %s then%s\nelse%s" % (paren(gt.term) if not atomic(gt.term) else gt.term,
                                                                              nested(yes), nested(no)))))
            seen.append(ptext)   # the fall-through is handled inside the arm, so the pattern is covered
    return "match %s with\n%s" % (scrut, "\n".join(lines))


# ------------------------------------------------------------------ calls
def rust_ty(text, cfg):
    t = (text or "").replace(" ", "")
    t = re.sub(r"<'[a-z_]+>", "", t)
    table = {"Vec<BddPtr>": "List P", "BinaryHeap<CompiledCNF>": "TieAuxC.AHeap P", "Vec<SDDAnd>": "List Ser.SddAnd",
             "Vec<SerBDD>": "Array Ser.SerBdd", "usize": "Nat", "bool": "Bool"}
    return table.get(t)


def rec_call(name, args, cx, k):
    cfg = cx.cfg
    if cx.pure or cx.loop is not None:
        raise Untranslatable("recursive call inside a closure or loop body")
    if cfg.rec == "fuel" and cx.fuel is None:
        raise Untranslatable("internal: fuel not opened")
    if len(args) != len(cfg.params):
        raise Untranslatable("arity of the recursive call")
    for (pn, _), a in zip(cfg.params, args):
        if pn in cfg.muts:
            a0 = a
            while a0[0] == "un":
                a0 = a0[2]
            if a0 != ("var", pn):
                raise Untranslatable("`&mut %s` is passed something else" % pn)

    def ck(vs, c):
        parts = [cfg.lean] + [b for b, _ in cfg.binders] + ([c.fuel] if cfg.rec == "fuel" else []) + \
                ([c.st] if cfg.state else []) + [paren(v.term) for v in vs]
        return bind_effect(" ".join(parts), c, k, cfg.ret_ty, bool(cfg.state), mut_names=cfg.muts)
    return Xs(list(args), cx, ck)


def gen_call(spec, args, cx, k):
    """call of another generated function: spec = dict(lean=, binders=[names], fuel_arg=i|None, state=bool, muts=[..], ret_ty=)"""
    if cx.pure:
        raise Untranslatable("call with effects in a pure context")

    def ck(vs, c):
        parts = [spec["lean"]] + list(spec.get("binders", []))
        if spec.get("fuel_arg") is not None:
            parts.append(paren(length_of(vs[spec["fuel_arg"]])))
        if spec.get("state"):
            parts.append(c.st)
        parts += [paren(v.term) for v in vs]
        return bind_effect(" ".join(parts), c, k, spec.get("ret_ty"), bool(spec.get("state")), mut_names=spec.get("muts", []))
    return Xs(list(args), cx, ck)


def length_of(v):
    if v.ty and v.ty.startswith("Array"):
        return "%s.size" % paren(v.term)
    if v.ty and v.ty.startswith("TieAuxC.AHeap"):
        return "%s.len" % paren(v.term)
    return "%s.length" % paren(v.term)


def X_call(e, cx, k):
    f, args = e[1], e[2]
    path = f[1] if f[0] == "path" else ([f[1]] if f[0] == "var" else None)
    if path is None:
        raise Untranslatable("call of a computed function")
    cfg = cx.cfg
    last = path[-1]
    if path == ["Some"] and len(args) == 1:
        return X(args[0], cx, lambda v, c: k(V("some " + paren(v.term), ("Option " + paren(v.ty)) if v.ty else None), c))
    if path in (["Box", "new"], ["VarLabel", "new"], ["VarLabel", "new_usize"], ["String", "from"]) and len(args) == 1:
        return X(args[0], cx, k)
    if path in (["Vec", "new"], ["Vec", "with_capacity"], ["HashMap", "new"], ["HashSet", "new"]):
        # the type comes from the `let` annotation or from the per-function table of locals
        return k(V("[]", None, attrs={"empty": True}), cx)
    if path == ["HashSet", "from"] and len(args) == 1:
        return X(args[0], cx, k)   # a Rust array literal `[s]` is parsed as … see X_array below
    if path == ["BinaryHeap", "new"] and not args:
        return k(V("TieAuxC.AHeap.new", "TieAuxC.AHeap P"), cx)
    if cfg.ops and path in (["BddPtr", "true_ptr"], ["BddPtr", "false_ptr"]) and not args:
        return k(V("O.tru" if last == "true_ptr" else "O.fls", "P"), cx)
    if last in cfg.rec_names and (len(path) == 1 or path[0] in ("Self",) + tuple(cfg.self_types)):
        return rec_call(last, args, cx, k)
    if last in cfg.calls and (len(path) == 1 or path[0] in ("Self",) + tuple(cfg.self_types)):
        return gen_call(cfg.calls[last], args, cx, k)
    if path in (["SddPtr", "BDD"], ["SddPtr", "Reg"]) and len(args) == 1 and "SddPtr" in cfg.enum_ty:
        def vk(v, c):
            if v.ty != ("BinarySDD" if last == "BDD" else "SddOr"):
                raise Untranslatable("SddPtr::%s of something that is not a node view" % last)
            return k(V(v.term, "Sdd.Ptr"), c)
        return X(args[0], cx, vk)
    if path == ["SDDOr"] and len(args) == 1:
        return X(args[0], cx, k)
    ev = enum_of(path, cx)
    if ev:
        en, var = ev
        if ENUMS[en][var][1] != len(args):
            raise Untranslatable("arity of %s::%s" % ev)
        return Xs(list(args), cx, lambda vs, c: k(lean_ctor(en, var, vs, c), c))
    if cfg.self_enum == "BottomUpPlan" and len(path) == 2 and path[0] in ("Self", "BottomUpPlan") and last in PLAN_FNS:
        ctor, n = PLAN_FNS[last]
        if n != len(args):
            raise Untranslatable("arity of BottomUpPlan::" + last)
        lty = lean_enum_ty("BottomUpPlan", cx)
        return Xs(list(args), cx, lambda vs, c: k(V("(%s.%s %s)" % (lty, ctor, " ".join(paren(v.term) for v in vs)), lty), c))
    raise Untranslatable("call of %s" % "::".join(path))


def elems_map(lv, cl, cx, k):
    """`elems.iter().map(|and| { …calls with the &mut state… }).collect()`: a second function of a mutual block,
    structurally recursive over the element list; returns the list of results next to the `&mut` state"""
    cfg = cx.cfg
    if len(cl[1]) != 1 or cl[1][0][0] != "pvar":
        raise Untranslatable("closure parameter of the element map")
    pn = cl[1][0][1]
    body = cl[2]
    for n in vars_in(body):
        if isinstance(cx.env.get(n), V) and n not in cfg.muts and n != pn and n not in [p for p, _ in cfg.params]:
            raise Untranslatable("the element closure captures the local `%s`" % n)
    name = "%s_elems" % cfg.lean
    if any(a.startswith("def " + name) for a in cx.mutual):
        raise Untranslatable("two element maps")
    sub = Cx(cfg, {}, None, None, cx.counter, cx.aux)
    sub.mutual = cx.mutual
    for m in cfg.muts:
        sub.env[m] = V(m, cx.env[m].ty)
    p_, s_, rest_ = sub.fresh("p"), sub.fresh("s"), sub.fresh("rest")
    sub.env[pn] = V("(%s, %s)" % (p_, s_), "Sdd.Ptr × Sdd.Ptr", attrs={"prime": V(p_, "Sdd.Ptr"), "sub": V(s_, "Sdd.Ptr")})
    rty = [None]

    def endk(v, c):
        rty[0] = v.ty
        ms = [c.env[m].term for m in cfg.muts]
        r2 = c.fresh("r")
        new = [c.fresh(m) for m in cfg.muts]
        return "match %s %s %s with\n| none => none\n| some (%s) => some (%s)" % (
            name, rest_, " ".join(ms), ", ".join([r2] + new), ", ".join(["%s :: %s" % (v.term, r2)] + new))
    sub.ret = None
    btext = SEQ(body[1], body[2], sub, endk) if body[0] == "block" else X(body, sub, endk)
    mut_decl = "".join(" (%s : %s)" % (m, cx.env[m].ty) for m in cfg.muts)
    mut_tys = " × ".join(cx.env[m].ty for m in cfg.muts)
    cx.mutual.append("def %s (xs : List (Sdd.Ptr × Sdd.Ptr))%s :\n    Option (List %s × %s) :=\n  match xs with\n  | [] => some ([], %s)\n  | (%s, %s) :: %s =>\n%s\n"
                     % (name, mut_decl, paren(rty[0] or "_"), mut_tys, ", ".join(cfg.muts), p_, s_, rest_, ind(btext, 4)))
    call = "%s %s %s" % (name, paren(lv.term), " ".join(cx.env[m].term for m in cfg.muts))
    return bind_effect(call, cx, k, "List " + paren(rty[0] or "_"), False, mut_names=cfg.muts, tail_ok=False)


def X_mcall(e, cx, k):
    recv, name, args = e[1], e[2], e[3]
    cfg = cx.cfg
    if recv == ("var", "self") and "self" not in cx.env:
        if cfg.ops and name in BUILDER_EFF and len(args) == BUILDER_EFF[name]:
            def bk(vs, c):
                call = "O.%s %s %s" % (name, c.st, " ".join(paren(v.term) for v in vs))
                return bind_effect(call, c, k, "P", True)
            return Xs(list(args), cx, bk)
        if cfg.ops and name == "var" and len(args) == 2:
            return Xs(list(args), cx, lambda vs, c: k(V("O.var %s %s" % (paren(vs[0].term), paren(vs[1].term)), "P"), c))
        if cfg.ops and name == "negate" and len(args) == 1:
            return X(args[0], cx, lambda v, c: k(V("O.neg " + paren(v.term), "P"), c))
        if cfg.ops and name in ("true_ptr", "false_ptr") and not args:
            return k(V("O.tru" if name == "true_ptr" else "O.fls", "P"), cx)
        if name in cfg.rec_names:
            return rec_call(name, args, cx, k)
        if name in cfg.calls:
            return gen_call(cfg.calls[name], args, cx, k)
        raise Untranslatable("method self.%s" % name)
    # h.pop().unwrap()
    if name == "unwrap" and not args and recv[0] == "mcall" and recv[2] == "pop" and not recv[3] and recv[1][0] == "var":
        hn = recv[1][1]
        hv = cx.env.get(hn)
        if isinstance(hv, V) and hv.ty == "TieAuxC.AHeap P":
            if cx.pure:
                raise Untranslatable("pop in a pure context")
            r, h2 = cx.fresh("e"), cx.fresh(hn)
            call = "TieAuxC.AHeap.pop strat %s" % paren(hv.term)
            cx.env[hn] = V(h2, hv.ty)
            rest = k(V(r, "P × Nat"), cx)
            return "match %s with\n| none => none\n| some (%s, %s) =>%s" % (call, r, h2, nested_rest(rest))
        raise Untranslatable("pop() of something that is not the heap")
    if name == "sort_by":
        raise Untranslatable("sort_by in expression position")
    if cfg.self_param and name in cfg.rec_names:
        return rec_call(name, [recv] + list(args), cx, k)

    def mk(rv, c):
        t, ty = rv.term, rv.ty
        if name in rv.attrs and not args:
            return k(rv.attrs[name], c)
        if name in IDENT_METHODS and not args:
            return k(rv, c)
        if name == "variable_mapping" and not args and ty == "Ser.LogicalSExpr":
            return k(V("Ser.LogicalSExpr.variableMapping " + paren(t), "List (String × Nat)"), c)
        if name == "label" and not args:
            return k(V(paren(t) + ".var", "Nat"), c)
        if name == "polarity" and not args:
            return k(V(paren(t) + ".pol", "Bool"), c)
        if name == "is_empty" and not args:
            return k(V(paren(t) + ".isEmpty", "Bool"), c)
        if name == "len" and not args:
            return k(V(length_of(rv), "Nat"), c)
        if name == "count_nodes" and not args and cfg.ops:
            return k(V("O.size " + paren(t), "Nat"), c)
        if name == "skip" and len(args) == 1:
            return X(args[0], c, lambda a, c2: k(V("%s.drop %s" % (paren(t), paren(a.term)), ty), c2))
        if name == "split_at" and len(args) == 1:
            def sk(a, c2):
                l, r = V("%s.take %s" % (paren(t), paren(a.term)), ty), V("%s.drop %s" % (paren(t), paren(a.term)), ty)
                return k(V("(%s, %s)" % (l.term, r.term), None, tup=[l, r]), c2)
            return X(args[0], c, sk)
        if name == "any" and len(args) == 1:
            lam, _ = closure_lambda(args[0], c, [elem_ty(ty)])
            return k(V("%s.any (%s)" % (paren(t), lam), "Bool"), c)
        if name == "fold" and len(args) == 2:
            def fk(iv, c2):
                lam, _ = closure_lambda(args[1], c2, [iv.ty, elem_ty(ty)])
                return k(V("%s.foldl (%s) %s" % (paren(t), lam, paren(iv.term)), iv.ty), c2)
            return X(args[0], c, fk)
        if name == "map" and len(args) == 1 and args[0][0] == "closure" and ty == "List (Sdd.Ptr × Sdd.Ptr)" and cfg.muts \
                and not c.pure:
            return elems_map(rv, args[0], c, k)
        if name == "map" and len(args) == 1 and args[0][0] == "closure":
            lam, rty = closure_lambda(args[0], c, [elem_ty(ty)])
            return k(V("%s.map (%s)" % (paren(t), lam), ("List " + paren(rty)) if rty else None), c)
        if name == "reduce" and len(args) == 1:
            lam, _ = closure_lambda(args[0], c, [elem_ty(ty), elem_ty(ty)])
            return k(V("TieAuxC.reduce (%s) %s" % (lam, paren(t)), ("Option " + paren(elem_ty(ty))) if elem_ty(ty) else None), c)
        if name == "unwrap_or" and len(args) == 1:
            return X(args[0], c, lambda a, c2: k(V("%s.getD %s" % (paren(t), paren(a.term)), a.ty), c2))
        if name == "union" and len(args) == 1 and cfg.sets_as_lists:
            return X(args[0], c, lambda a, c2: k(V("%s ++ %s" % (paren(t), paren(a.term)), ty), c2))
        if name == "get" and len(args) == 1:
            if ty == "PModel":
                return X(args[0], c, lambda a, c2: k(V("%s %s" % (t, paren(a.term)), "Option Bool"), c2))
            if ty == "Assign":
                return X(args[0], c, lambda a, c2: k(V("some (%s %s)" % (t, paren(a.term)), "Option Bool"), c2))
            if ty and ty.startswith("List (") and ty.endswith("× Nat)"):
                fn = "Ser.mapGet %s" % paren(t) if "String" in ty else "Ser.assocGet %s" % paren(t)
                return X(args[0], c, lambda a, c2: k(V("%s %s" % (fn, paren(a.term)), "Option Nat"), c2))
            raise Untranslatable(".get on " + str(ty))
        if name == "contains_key" and len(args) == 1 and ty and ty.startswith("List (") and ty.endswith("× Nat)"):
            return X(args[0], c, lambda a, c2: k(V("(Ser.assocGet %s %s).isSome" % (paren(t), paren(a.term)), "Bool"), c2))
        if name == "unwrap" and not args:
            if c.pure:
                raise Untranslatable("unwrap in a pure context")
            r = c.fresh("x")
            inner = ty[7:].strip("()") if ty and ty.startswith("Option ") else None
            rest = k(V(r, inner), c)
            return "match %s with\n| none => none\n| some %s =>%s" % (t, r, nested_rest(rest))
        if name == "unwrap_or_else" and len(args) == 1 and args[0][0] == "path":
            r = c.fresh("x")
            c1, c2 = c.fork(), c.fork()
            inner = ty[7:].strip("()") if ty and ty.startswith("Option ") else None
            yes = k(V(r, inner), c1)
            no = X(("call", args[0], []), c2, k)
            return "match %s with\n| some %s =>%s\n| none =>%s" % (t, r, nested_rest(yes), nested_rest(no))
        raise Untranslatable("method .%s on %s" % (name, ty))
    return X(recv, cx, mk)


# ------------------------------------------------------------------ statements
MUTATING = {"push", "insert", "pop", "sort_by", "push_str", "clear", "dedup_by_key"}


def assigned_in(node, out=None):
    out = [] if out is None else out
    if isinstance(node, tuple) and node:
        if node[0] == "assign":
            t = node[2]
            while t[0] in ("index", "field", "un"):
                t = t[1] if t[0] != "un" else t[2]
            if t[0] == "var" and t[1] not in out:
                out.append(t[1])
        if node[0] == "mcall" and node[2] in MUTATING and node[1][0] == "var" and node[1][1] not in out:
            out.append(node[1][1])
        for x in node:
            assigned_in(x, out)
    elif isinstance(node, list):
        for x in node:
            assigned_in(x, out)
    return out


def vars_in(node, out=None):
    out = [] if out is None else out
    if isinstance(node, tuple) and node:
        if node[0] == "var" and len(node) == 2 and isinstance(node[1], str) and node[1] not in out:
            out.append(node[1])
        for x in node:
            vars_in(x, out)
    elif isinstance(node, list):
        for x in node:
            vars_in(x, out)
    return out


def bind_local(name, v, cx, rest):
    """`let name = v`: inline atoms, otherwise a lean `let`"""
    if v.tup or atomic(v.term) or v.attrs.get("empty"):
        cx.env[name] = v
        return rest(cx)
    nm = cx.fresh(name)
    cx.env[name] = V(nm, v.ty, v.attrs)
    return "let %s := %s;\n%s" % (nm, v.term, rest(cx))


def bind_pattern(pat, v, cx, rest):
    while pat[0] == "pref":
        pat = pat[1]
    if pat[0] == "pvar":
        return bind_local(pat[1], v, cx, rest)
    if pat[0] == "pwild":
        return rest(cx)
    if pat[0] == "ptuple" and v.tup and len(v.tup) == len(pat[1]):
        def go(i, c):
            if i == len(pat[1]):
                return rest(c)
            return bind_pattern(pat[1][i], v.tup[i], c, lambda c2: go(i + 1, c2))
        return go(0, cx)
    ptext, binds = P(pat, cx, v)
    cx.env.update(binds)
    return "match %s with\n| %s =>%s" % (v.term, ptext, nested_rest(rest(cx)))


def state_tuple(names):
    return names[0] if len(names) == 1 else "(" + ", ".join(names) + ")"


def binder_args(cfg):
    return [b for b, _ in cfg.binders] + [p for p, _ in cfg.params if p not in cfg.muts]


def binder_decl(cfg):
    return cfg.implicit + "".join(" (%s : %s)" % b for b in cfg.binders) + \
        "".join(" (%s : %s)" % (p, t) for p, t in cfg.params if p not in cfg.muts)


def loop_setup(body_ast, extra_ast, cx):
    """state variables, their types, extra free locals of a loop body"""
    cfg = cx.cfg
    svars = [n for n in assigned_in([body_ast, extra_ast]) if isinstance(cx.env.get(n), V)]
    for n in svars:
        if cx.env[n].ty is None:
            raise Untranslatable("type of the loop variable `%s` is not known to the translator" % n)
    bnames = set(binder_args(cfg))
    extra = []
    for n in vars_in([body_ast, extra_ast]):
        v = cx.env.get(n)
        if isinstance(v, V) and n not in svars and not (v.term == n and n in bnames):
            if v.ty is None:
                raise Untranslatable("type of the local `%s` used in a loop is not known to the translator" % n)
            extra.append(n)
    return svars, extra


def loop_cx(cx, svars, extra):
    cfg = cx.cfg
    b = cx.fork(loop=None, fuel=None)
    b.env = {n: v for n, v in cx.env.items() if not isinstance(v, V)}   # closures
    for p_, t in cfg.params:
        if p_ not in cfg.muts and isinstance(cx.env.get(p_), V) and cx.env[p_].term == p_:
            b.env[p_] = cx.env[p_]
    extra_decl = ""
    for n in extra:
        nm = cx.fresh(n)
        b.env[n] = V(nm, cx.env[n].ty, cx.env[n].attrs)
        extra_decl += " (%s : %s)" % (nm, cx.env[n].ty)
    names, tys = [], []
    if cfg.state:
        b.st = cx.fresh("s")
        names.append(b.st)
        tys.append(cfg.state_ty)
    for n in svars:
        nm = cx.fresh(n)
        b.env[n] = V(nm, cx.env[n].ty, cx.env[n].attrs)
        names.append(nm)
        tys.append(cx.env[n].ty)
    sty = " × ".join(paren(t) if " " in t and i < len(tys) - 1 else t for i, t in enumerate(tys))
    return b, names, sty, extra_decl


def cur_state(c, svars):
    return state_tuple(([c.st] if c.cfg.state else []) + [c.env[n].term for n in svars])


def FOR(s, cx, rest):
    pat, it, body = s[1], s[2], s[3]
    cfg = cx.cfg
    if contains_rec(body, cfg):
        raise Untranslatable("recursive call inside a loop")

    def fk(lv, c):
        if c.pure:
            raise Untranslatable("loop in a pure context")
        ety = elem_ty(lv.ty)
        if ety is None:
            raise Untranslatable("element type of the iterated collection is not known")
        svars, extra = loop_setup(body, None, c)
        if not svars and not cfg.state:
            raise Untranslatable("for loop without effect")
        c.counter[1] += 1
        name = "%s_for%d" % (cfg.lean, c.counter[1])
        b, names, sty, extra_decl = loop_cx(c, svars, extra)
        b0env = dict(b.env)
        x = c.fresh("x")
        p_ = pat
        while p_[0] == "pref":
            p_ = p_[1]
        b.loop = {"brk": lambda cc: "some (.done %s)" % cur_state(cc, svars),
                  "cont": lambda cc: "some (.yield %s)" % cur_state(cc, svars)}
        b.ret = None
        endk = lambda v, cc: cc.loop["cont"](cc)
        if p_[0] == "pvar":
            x = c.fresh(p_[1])
            b.env[p_[1]] = V(x, ety)
            btext = SEQ(body[1], body[2], b, endk)
        else:
            btext = bind_pattern(p_, V(x, ety), b, lambda cc: SEQ(body[1], body[2], cc, endk))
        used = [n for n in extra if re.search(r"\b%s\b" % re.escape(b0env[n].term), btext)]
        extra_decl = "".join(" (%s : %s)" % (b0env[n].term, b0env[n].ty) for n in used)
        c.aux.append("@[tie_unfold] def %s %s%s :\n    %s → %s → Option (ForInStep (%s)) :=\n  fun %s %s =>\n%s\n"
                     % (name, binder_decl(cfg), extra_decl, paren(sty), paren(ety), sty, state_tuple(names), x, ind(btext, 4)))
        call = "TieAuxC.forIn (%s)" % " ".join([name] + binder_args(cfg) + [paren(c.env[n].term) for n in used])
        init = cur_state(c, svars)
        new = []
        if cfg.state:
            c.st = c.fresh("s")
            new.append(c.st)
        for n in svars:
            nm = c.fresh(n)
            c.env[n] = V(nm, c.env[n].ty, c.env[n].attrs)
            new.append(nm)
        return "match %s %s %s with\n| none => none\n| some %s =>%s" % (call, init, paren(lv.term), state_tuple(new),
                                                                       nested_rest(rest(c)))
    return X(it, cx, fk)


def WHILE(s, cx, rest):
    cond, body = s[1], s[2]
    cfg = cx.cfg
    if contains_rec(body, cfg) or cx.pure:
        raise Untranslatable("while loop with a recursive call / in a pure context")
    # fuel: `while X.len() > k` runs at most X.len() times
    if not (cond[0] == "bin" and cond[1] in (">", ">=", "!=") and cond[2][0] == "mcall" and cond[2][2] == "len"
            and cond[2][1][0] == "var" and cond[3][0] == "num"):
        raise Untranslatable("while condition is not `X.len() > k` (no fuel known)")
    fuel = pure_term(cond[2], cx).term
    svars, extra = loop_setup(body, cond, cx)
    if cond[2][1][1] not in svars:
        raise Untranslatable("while loop does not change the collection its condition measures")
    cx.counter[1] += 1
    name = "%s_while%d" % (cfg.lean, cx.counter[1])
    b, names, sty, extra_decl = loop_cx(cx, svars, extra)
    ctext = pure_term(cond, b.fork()).term
    b.loop = {"brk": None, "cont": None, "while": True}
    b.ret = None
    btext = SEQ(body[1], body[2], b, lambda v, cc: "some %s" % cur_state(cc, svars))
    cx.aux.append("@[tie_unfold] def %s_cond %s%s : %s → Bool :=\n  fun %s => %s\n"
                  % (name, binder_decl(cfg), extra_decl, paren(sty), state_tuple(names), ctext))
    cx.aux.append("@[tie_unfold] def %s %s%s : %s → Option (%s) :=\n  fun %s =>\n%s\n"
                  % (name, binder_decl(cfg), extra_decl, paren(sty), sty, state_tuple(names), ind(btext, 4)))
    args = " ".join(binder_args(cfg) + [paren(cx.env[n].term) for n in extra])
    init = cur_state(cx, svars)
    new = []
    if cfg.state:
        cx.st = cx.fresh("s")
        new.append(cx.st)
    for n in svars:
        nm = cx.fresh(n)
        cx.env[n] = V(nm, cx.env[n].ty, cx.env[n].attrs)
        new.append(nm)
    return "match TieAuxC.whileFuel (%s_cond %s) (%s %s) %s %s with\n| none => none\n| some %s =>%s" % (
        name, args, name, args, paren(fuel), init, state_tuple(new), nested_rest(rest(cx)))


COMPOUND = ("if", "iflet", "match", "block")


def SEQ(stmts, tail, cx, k):
    cfg = cx.cfg
    if not stmts:
        if tail is None:
            return k(V("()", "Unit"), cx)
        if tail[0] == "mcall" and tail[2] in ("push", "insert") and tail[1][0] == "var":
            return SEQ([("expr", tail)], None, cx, k)
        if cfg.rec == "fuel" and cx.fuel is None and contains_rec(tail, cfg) and tail[0] not in COMPOUND:
            w = open_fuel(cx)
            return w(X(tail, cx, k))
        return X(tail, cx, k)
    s = stmts[0]
    if cfg.rec == "fuel" and cx.fuel is None and contains_rec(s, cfg) and not (s[0] == "expr" and s[1][0] in COMPOUND):
        w = open_fuel(cx)
        return w(SEQ(stmts, tail, cx, k))
    rest = lambda c: SEQ(stmts[1:], tail, c, k)
    kind = s[0]
    if kind == "let":
        pat, e, ann = s[1], s[3], s[4] if len(s) > 4 else None
        if e[0] == "closure":
            p_ = pat
            if p_[0] != "pvar":
                raise Untranslatable("closure bound to a pattern")
            cx.env[p_[1]] = ("closure", e)
            return rest(cx)

        if e[0] == "match" and pat[0] == "pvar":
            try:
                pv = pure_match(e, cx)
            except Untranslatable:
                pv = None
            if pv is not None:
                return bind_local(pat[1], pv, cx, rest)

        def lk(v, c):
            if v.ty is None:
                ty = rust_ty(ann, cfg) or (cfg.local_ty.get(pat[1]) if pat[0] == "pvar" else None)
                if ty:
                    term = "#[]" if (v.attrs.get("empty") and ty.startswith("Array")) else v.term
                    v = V("(%s : %s)" % (term, ty) if v.attrs.get("empty") else term, ty, tup=v.tup)
            return bind_pattern(pat, v, c, rest)
        return X(e, cx, lk)
    if kind == "assign":
        if s[1] != "=" or s[2][0] != "var":
            raise Untranslatable("assignment form")
        n = s[2][1]
        if not isinstance(cx.env.get(n), V):
            raise Untranslatable("assignment to unknown `%s`" % n)
        old = cx.env[n]
        return X(s[3], cx, lambda v, c: bind_local(n, V(v.term, v.ty or old.ty, v.attrs, v.tup), c, rest))
    if kind == "return":
        if cx.loop is not None or cx.pure or cx.ret is None:
            raise Untranslatable("return inside a loop body or closure")
        if s[1] is None:
            return cx.ret(V("()", "Unit"), cx)
        return X(s[1], cx, cx.ret)
    if kind in ("break", "continue"):
        if cx.loop is None or cx.loop.get("while"):
            raise Untranslatable("%s outside a for loop" % kind)
        return cx.loop["brk" if kind == "break" else "cont"](cx)
    if kind == "for":
        return FOR(s, cx, rest)
    if kind == "while":
        return WHILE(s, cx, rest)
    if kind == "expr":
        e = s[1]
        if e[0] == "mcall" and e[1][0] == "var" and e[2] in ("push", "insert", "sort_by", "dedup_by_key") and isinstance(cx.env.get(e[1][1]), V):
            n = e[1][1]
            old = cx.env[n]
            if e[2] == "sort_by" and len(e[3]) == 1:
                if not cfg.perm:
                    raise Untranslatable("sort_by has no counterpart in the model of this function")
                return bind_local(n, V("perm " + paren(old.term), old.ty), cx, rest)
            if e[2] == "dedup_by_key" and len(e[3]) == 1:
                lam, _ = closure_lambda(e[3][0], cx, [elem_ty(old.ty)])
                return bind_local(n, V("TieAuxC.dedupByKey (%s) %s" % (lam, paren(old.term)), old.ty), cx, rest)
            if e[2] == "push" and len(e[3]) == 1:
                def pk(v, c):
                    o = c.env[n]
                    if o.ty and o.ty.startswith("Array"):
                        t = "%s.push %s" % (paren(o.term), paren(v.term))
                    elif o.ty == "TieAuxC.AHeap P":
                        t = "TieAuxC.AHeap.push %s %s" % (paren(o.term), paren(v.term))
                    elif o.ty and (o.ty.startswith("List") or o.ty in ("Clause", "Cnf")):
                        t = "%s ++ [%s]" % (paren(o.term), v.term)
                    else:
                        raise Untranslatable("push on " + str(o.ty))
                    return bind_local(n, V(t, o.ty), c, rest)
                return X(e[3][0], cx, pk)
            if e[2] == "insert" and len(e[3]) == 2 and old.ty and old.ty.startswith("List ("):
                return Xs(list(e[3]), cx, lambda vs, c: bind_local(
                    n, V("(%s, %s) :: %s" % (vs[0].term, vs[1].term, paren(c.env[n].term)), old.ty), c, rest))
            raise Untranslatable("statement .%s" % e[2])
        return X(e, cx, lambda v, c: rest(c))
    raise Untranslatable("statement kind " + kind)


# ------------------------------------------------------------------ functions
def translate(cfg, src):
    ps, body = find_fn(src, cfg.rust, cfg.impl_hint)
    params = [p for p in parse_params(ps) if p != "self" or cfg.self_param]
    if params != [p for p, _ in cfg.params]:
        raise Untranslatable("parameters are %r, expected %r" % (params, [p for p, _ in cfg.params]))
    for pn, req in cfg.param_req.items():   # the mapping of a parameter depends on its Rust type
        seg = [x for x in re.split(r",(?![^<]*>)", ps) if re.match(r"\s*(mut\s+)?%s\s*:" % pn, x)]
        if not seg or not re.search(req, seg[0].replace(" ", "").replace("\n", "")):
            raise Untranslatable("the Rust type of parameter `%s` is not the one the mapping table is for (%s)" % (pn, req))
    if cfg.inner_fn:     # a nested `fn helper(..)` inside the body
        ps, body = find_fn(body, cfg.inner_fn)
        params = [p for p in parse_params(ps) if p != "self"]
        if params != [p for p, _ in cfg.inner_params]:
            raise Untranslatable("parameters of %s are %r" % (cfg.inner_fn, params))
        cfg = cfg.with_params(cfg.inner_params)
    elif cfg.strip_inner_fn:
        # remove nested fn items from the body text (they are translated separately)
        body = strip_inner_fns(body)
    body = re.sub(r"#\[[^\]]*\]", "", body)
    ast = parse_body(body)
    counter, aux = [0, 0], []
    env = {p: V(p, t) for p, t in cfg.params}
    for b, t in cfg.binders:
        if b not in ("O", "strat", "perm"):
            env[b] = V(b, t)

    def ret(v, cx):
        return ret_tuple(v, cx)
    ret.is_ret = True
    cx = Cx(cfg, env, cfg.state, ret, counter, aux)
    text = SEQ(ast[1], ast[2], cx, ret)
    decl = cfg.implicit + "".join(" (%s : %s)" % b for b in cfg.binders)
    if cfg.rec == "fuel":
        decl += " (fuel : Nat)"
    if cfg.state:
        decl += " (%s : %s)" % (cfg.state, cfg.state_ty)
    decl += "".join(" (%s : %s)" % (p, t) for p, t in cfg.params)
    out = "".join(a + "\n" for a in aux)
    main = "def %s %s :\n    Option (%s) :=\n%s\n" % (cfg.lean, decl.strip(), cfg.ret_tuple_ty, ind(text))
    if cx.mutual:
        out += "mutual\n" + main + "".join(cx.mutual) + "end\n"
    elif cfg.fallback_extra:
        raise Untranslatable("the element map of the decision-node case was not found")
    else:
        out += main
    return out


def strip_inner_fns(body):
    while True:
        m = re.search(r"\bfn\s+[a-z_]+\s*(<[^>]*>)?\s*\(", body)
        if not m:
            return body
        from rustmini_compile import matching
        p1 = matching(body, m.end() - 1, "(", ")")
        b0 = body.index("{", p1)
        b1 = matching(body, b0)
        body = body[:m.start()] + body[b1 + 1:]


def mk(**kw):
    d = dict(implicit="", binders=[], params=[], impl_hint=None, inner_fn=None, inner_params=None, strip_inner_fn=False,
             state=None, state_ty="σ", muts=[], enum_ty={}, self_enum=None, self_types=[], rec=None, rec_names=[],
             calls={}, ops=False, perm=False, local_ty={}, sets_as_lists=False, self_param=False, fallback_extra="", param_req={})
    d.update(kw)
    c = Cfg(**d)

    def with_params(ps):
        d2 = dict(d)
        d2["params"] = ps
        d2["inner_fn"] = None
        c2 = Cfg(**d2)
        c2.with_params = with_params
        return c2
    c.with_params = with_params
    return c


OPS_IMPL = "{σ P : Type}"
CE = {"LogicalExpr": "Compile.LogicalExpr", "BottomUpPlan": "Compile.Plan", "DTree": "Compile.DTree"}

FUNS = [
    mk(key="BottomUpBuilder::compile_logical_expr", file="src/builder/mod.rs", rust="compile_logical_expr",
       lean="compileExpr", implicit=OPS_IMPL, binders=[("O", "Ops σ P")], params=[("expr", "Compile.LogicalExpr")],
       state="s", ops=True, enum_ty=CE, rec="structural", rec_names=["compile_logical_expr"], ret_ty="P",
       ret_tuple_ty="σ × P", fallback="@_root_.Compile.compileExpr"),
    mk(key="BottomUpBuilder::compile_plan", file="src/builder/mod.rs", rust="compile_plan",
       lean="compilePlan", implicit=OPS_IMPL, binders=[("O", "Ops σ P")], params=[("expr", "Compile.Plan")],
       state="s", ops=True, enum_ty=CE, rec="structural", rec_names=["compile_plan"], ret_ty="P",
       ret_tuple_ty="σ × P", fallback="@_root_.Compile.compilePlan"),
    mk(key="BottomUpPlan::from_dtree", file="src/plan/bottom_up_plan.rs", rust="from_dtree", impl_hint=r"impl\s+BottomUpPlan\s*\{",
       lean="fromDtree", params=[("dtree", "Compile.DTree")], enum_ty=CE, self_enum="BottomUpPlan",
       self_types=["BottomUpPlan"], rec="structural", rec_names=["from_dtree"], ret_ty="Compile.Plan",
       ret_tuple_ty="Compile.Plan", fallback="fun (t : _root_.Compile.DTree) => some (_root_.Compile.Plan.fromDtree t)"),
    mk(key="BddBuilder::collapse_clauses", file="src/builder/bdd/builder.rs", rust="collapse_clauses",
       lean="collapse", implicit=OPS_IMPL, binders=[("O", "Ops σ P")], params=[("vec", "List P")],
       state="s", ops=True, rec="fuel", rec_names=["collapse_clauses"], ret_ty="Option P",
       ret_tuple_ty="σ × Option P", fallback="@_root_.Compile.collapse"),
    mk(key="BddBuilder::compile_cnf", file="src/builder/bdd/builder.rs", rust="compile_cnf",
       lean="compileCnf", implicit=OPS_IMPL, binders=[("O", "Ops σ P"), ("perm", "List Clause → List Clause")],
       params=[("cnf", "Cnf")], state="s", ops=True, perm=True, ret_ty="P", ret_tuple_ty="σ × P",
       calls={"collapse_clauses": dict(lean="collapse", binders=["O"], fuel_arg=0, state=True, ret_ty="Option P")},
       fallback="@TieAuxC.compileCnfPerm"),
    mk(key="BddBuilder::compile_cnf_with_assignments", file="src/builder/bdd/builder.rs", rust="compile_cnf_with_assignments",
       lean="compileWithAssign", implicit=OPS_IMPL, binders=[("O", "Ops σ P"), ("strat", "Strategy P")],
       params=[("cnf", "Cnf"), ("assgn", "PModel")], state="s", ops=True, ret_ty="P", ret_tuple_ty="σ × P",
       fallback="fun {σ P : Type} (O : Ops σ P) (strat : Strategy P) (s : σ) (cs : Cnf) (m : PModel) => _root_.Compile.compileWithAssign O strat m s cs"),
]

SE = {"LogicalSExpr": "Ser.LogicalSExpr", "LogicalExpr": "Ser.LogicalExpr"}
T_BDD, N_BDD = "List (Bdd.Ptr × Nat)", "Array Ser.SerBdd"
FUNS += [
    mk(key="VTreeSerializer::from_vtree::helper", file="src/serialize/ser_vtree.rs", rust="from_vtree", impl_hint=r"impl\s+VTreeSerializer",
       lean="serVtreeHelper", params=[("vtree", "Sdd.VTree")], inner_fn="helper", inner_params=[("t", "Sdd.VTree")],
       enum_ty={"BTree": "Sdd.VTree", "SerVTree": "Ser.SerVTree"}, rec="structural", rec_names=["helper"],
       ret_ty="Ser.SerVTree", ret_tuple_ty="Ser.SerVTree", fallback="fun (t : Sdd.VTree) => some (Ser.serVtree t)"),
    mk(key="VTreeSerializer::from_vtree", file="src/serialize/ser_vtree.rs", rust="from_vtree", impl_hint=r"impl\s+VTreeSerializer",
       lean="serVtree", params=[("vtree", "Sdd.VTree")], strip_inner_fn=True,
       enum_ty={"BTree": "Sdd.VTree", "SerVTree": "Ser.SerVTree"},
       calls={"helper": dict(lean="serVtreeHelper", ret_ty="Ser.SerVTree")},
       ret_ty="Ser.SerVTree", ret_tuple_ty="Ser.SerVTree", fallback="fun (t : Sdd.VTree) => some (Ser.serVtree t)"),
    mk(key="BDDSerializer::serialize_helper", file="src/serialize/ser_bdd.rs", rust="serialize_helper", impl_hint=r"impl\s+BDDSerializer",
       lean="serBddHelper", params=[("bdd", "Bdd.Ptr"), ("table", T_BDD), ("nodes", N_BDD)], muts=["table", "nodes"],
       param_req={"table": r"HashMap<&('a)?BddNode(<'a>)?,usize>", "nodes": r"Vec<SerBDD>"},
       enum_ty={"BddPtr": "Bdd.Ptr", "SerBDDPtr": "Ser.SerBddPtr"}, rec="structural", rec_names=["serialize_helper"],
       self_types=["BDDSerializer"], ret_ty="Ser.SerBddPtr", ret_tuple_ty="Ser.SerBddPtr × %s × %s" % (T_BDD, N_BDD),
       fallback="fun (bdd : Bdd.Ptr) (table : %s) (nodes : %s) => some ((Ser.serBddAux bdd ⟨nodes, table⟩).1, "
                "(Ser.serBddAux bdd ⟨nodes, table⟩).2.table, (Ser.serBddAux bdd ⟨nodes, table⟩).2.nodes)" % (T_BDD, N_BDD)),
    mk(key="BDDSerializer::from_bdd", file="src/serialize/ser_bdd.rs", rust="from_bdd", impl_hint=r"impl\s+BDDSerializer",
       lean="serBdd", params=[("bdd", "Bdd.Ptr")], enum_ty={"BddPtr": "Bdd.Ptr", "SerBDDPtr": "Ser.SerBddPtr"},
       self_types=["BDDSerializer"], local_ty={"nodes": N_BDD, "table": T_BDD},
       calls={"serialize_helper": dict(lean="serBddHelper", muts=["table", "nodes"], ret_ty="Ser.SerBddPtr")},
       ret_ty="Ser.BddTable", ret_tuple_ty="Ser.BddTable", fallback="fun (d : Bdd.Ptr) => some (Ser.serBdd d)"),
    mk(key="LogicalExpr::from_sexpr::helper", file="src/repr/logical_expr.rs", rust="from_sexpr", impl_hint=r"impl\s+LogicalExpr",
       lean="fromSexprHelper", params=[("sexpr", "Ser.LogicalSExpr")], inner_fn="helper",
       inner_params=[("sexpr", "Ser.LogicalSExpr"), ("mapping", "List (String × Nat)")], enum_ty=SE,
       rec="structural", rec_names=["helper"], ret_ty="Ser.LogicalExpr", ret_tuple_ty="Ser.LogicalExpr",
       fallback="fun (e : Ser.LogicalSExpr) (m : List (String × Nat)) => Ser.fromSexprHelper m e"),
    mk(key="LogicalExpr::from_sexpr", file="src/repr/logical_expr.rs", rust="from_sexpr", impl_hint=r"impl\s+LogicalExpr",
       lean="fromSexpr", params=[("sexpr", "Ser.LogicalSExpr")], strip_inner_fn=True, enum_ty=SE,
       calls={"helper": dict(lean="fromSexprHelper", ret_ty="Ser.LogicalExpr")},
       ret_ty="Ser.LogicalExpr", ret_tuple_ty="Ser.LogicalExpr", fallback="Ser.fromSexpr"),
    mk(key="LogicalExpr::eval", file="src/repr/logical_expr.rs", rust="eval", impl_hint=r"impl\s+LogicalExpr",
       lean="eval", params=[("self", "Ser.LogicalExpr"), ("values", "Assign")], self_param=True, enum_ty=SE,
       rec="structural", rec_names=["eval"], ret_ty="Bool", ret_tuple_ty="Bool",
       fallback="fun (e : Ser.LogicalExpr) (a : Assign) => some (Ser.LogicalExpr.eval a e)"),
    mk(key="LogicalSExpr::unique_variables", file="src/serialize/ser_logical_expr.rs", rust="unique_variables",
       impl_hint=r"impl\s+LogicalSExpr", lean="uniqueVariables", params=[("self", "Ser.LogicalSExpr")], self_param=True,
       enum_ty=SE, rec="structural", rec_names=["unique_variables"], sets_as_lists=True, ret_ty="List String",
       ret_tuple_ty="List String", local_ty={}, fallback="fun (e : Ser.LogicalSExpr) => some (Ser.LogicalSExpr.uniqueVariables e)"),
]

T_SDD, N_SDD = "List (Sdd.Ptr × Nat)", "Array Ser.SddOr"
SDD_RET = "(Ser.serSddAux d ⟨nodes, table⟩).1, (Ser.serSddAux d ⟨nodes, table⟩).2.table, (Ser.serSddAux d ⟨nodes, table⟩).2.nodes"
FUNS += [
    mk(key="SDDSerializer::serialize_helper", file="src/serialize/ser_sdd.rs", rust="serialize_helper", impl_hint=r"impl\s+SDDSerializer",
       lean="serSddHelper", params=[("sdd", "Sdd.Ptr"), ("table", T_SDD), ("nodes", N_SDD)], muts=["table", "nodes"],
       param_req={"table": r"HashMap<SddPtr(<'a>)?,usize>", "nodes": r"Vec<SDDOr>"},
       enum_ty={"SddPtr": "Sdd.Ptr", "SerSDDPtr": "Ser.SerSddPtr"}, rec="structural", rec_names=["serialize_helper"],
       self_types=["SDDSerializer"], ret_ty="Ser.SerSddPtr", ret_tuple_ty="Ser.SerSddPtr × %s × %s" % (T_SDD, N_SDD),
       fallback="fun (d : Sdd.Ptr) (table : %s) (nodes : %s) => some (%s)" % (T_SDD, N_SDD, SDD_RET),
       fallback_extra="abbrev serSddHelper_elems := fun (es : List (Sdd.Ptr × Sdd.Ptr)) (table : %s) (nodes : %s) => "
                      "some ((Ser.serSddElems es ⟨nodes, table⟩).1, (Ser.serSddElems es ⟨nodes, table⟩).2.table, "
                      "(Ser.serSddElems es ⟨nodes, table⟩).2.nodes)\n" % (T_SDD, N_SDD)),
    mk(key="SDDSerializer::from_sdd", file="src/serialize/ser_sdd.rs", rust="from_sdd", impl_hint=r"impl\s+SDDSerializer",
       lean="serSdd", params=[("sdd", "Sdd.Ptr")], enum_ty={"SddPtr": "Sdd.Ptr", "SerSDDPtr": "Ser.SerSddPtr"},
       self_types=["SDDSerializer"], local_ty={"nodes": N_SDD, "table": T_SDD},
       calls={"serialize_helper": dict(lean="serSddHelper", muts=["table", "nodes"], ret_ty="Ser.SerSddPtr")},
       ret_ty="Ser.SddTable", ret_tuple_ty="Ser.SddTable", fallback="fun (d : Sdd.Ptr) => some (Ser.serSdd d)"),
]

HEADER = """import RsddModel.Lemmas.TieCompileAux
/-!
# Generated by tools/gen_compile.py from the Rust source — do not edit

`compile_logical_expr`, `compile_plan` (src/builder/mod.rs), `from_dtree` (src/plan/bottom_up_plan.rs),
`collapse_clauses`, `compile_cnf`, `compile_cnf_with_assignments` (src/builder/bdd/builder.rs) and the serialisers,
statement by statement, in the monad `Option` (`none` = panic / out of fuel).
Compared with the hand-written model in `Props/TieCompile.lean`.
-/
set_option linter.unusedVariables false
namespace Gen.Compile
open Spec _root_.Compile

"""


def write_if_changed(path, text):
    old = open(path).read() if os.path.exists(path) else None
    if old != text:
        open(path, "w").write(text)


def main():
    status, defs = {}, []
    cache = {}
    for cfg in FUNS:
        try:
            if os.environ.get("GEN_COMPILE_FORCE_FALLBACK"):
                raise Untranslatable("fallback forced (test)")
            if cfg.file not in cache:
                cache[cfg.file] = open(os.path.join(REPO, cfg.file)).read()
            defs.append(translate(cfg, cache[cfg.file]))
            status[cfg.key] = "translated"
        except Exception as e:   # never crash: every failure is a per-function fallback
            msg = ("%s: %s" % (type(e).__name__, e)) if not isinstance(e, Untranslatable) else str(e)
            msg = msg.replace("\n", " ")
            defs.append("-- TRANSLATOR ROUTE NOT AVAILABLE for %s: %s\nabbrev %s := %s\n%s" % (cfg.rust, msg, cfg.lean, cfg.fallback,
                                                                                              cfg.fallback_extra))
            status[cfg.key] = "UNTRANSLATED (translator route not available, tied by correspondence only): %s" % msg
    write_if_changed(OUT, HEADER + "\n".join(defs) + "\nend Gen.Compile\n")
    return status


if __name__ == "__main__":
    for k_, v_ in main().items():
        print(k_, "->", v_)
