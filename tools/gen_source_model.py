#!/usr/bin/env python3
"""Translator: regenerate Lean definitions from the Rust source text on every run.

What is translated (the pure, table-like pieces whose arms the theorems case-split on):

* `Ite::new` (src/builder/cache/ite.rs): the four `match (f, g, h) { … }` stages — introduce
  constants, terminal cases, reorder, standardise negation — arm by arm, guard by guard.
  Emitted twice, once over `Bdd.Ptr` and once over `Sdd.Ptr` (the Rust is generic in `T`).
* `FiniteField::{new, negate, add, sub}` (src/util/semirings/finitefield.rs): the arithmetic
  expression of each one-line body, over `Nat`.

The output, `RsddModel/Model/GenIte.lean` and `GenFF.lean`, is compared with the hand-written
model by `RsddModel/Props/TieIte.lean` and `TieFF.lean` (`Gen.… = …` theorems, kernel-checked).  A change of an arm in
the source therefore changes the generated definition and the tie theorem stops checking; the
check then searches for a failing input with the correspondence streams.

The translator accepts a small grammar only.  When the source leaves that grammar the translator
route is not available for that function on that tree: the generated names become aliases of
the hand-written model, the status line (copied into the evidence file) says UNTRANSLATED with
the reason, and the function stays tied to the source by the correspondence streams, which are
the primary tie of every property.  When the translator CAN read the source and the result
differs from the model, the tie theorem fails and the property is reported.
"""
import os, re, sys

ROOT = os.path.dirname(os.path.dirname(os.path.abspath(__file__)))
REPO = os.environ.get("VERIF_REPO", "/repo")
OUT_ITE = os.path.join(ROOT, "lean", "RsddModel", "Model", "GenIte.lean")
OUT_FF = os.path.join(ROOT, "lean", "RsddModel", "Model", "GenFF.lean")
OUT_SEM = os.path.join(ROOT, "lean", "RsddModel", "Model", "GenSem.lean")


class Untranslatable(Exception):
    pass


# ---------------------------------------------------------------- tokenizer / tiny parser
TOK = re.compile(r"\s*(=>|==|!=|&&|\|\||>>=|::|[A-Za-z_][A-Za-z0-9_]*|\d+(?:u128)?|[(){}\[\],.!:;=+\-*%<>&|_])")


def tokenize(s):
    s = re.sub(r"//[^\n]*", "", s)
    out, i = [], 0
    while i < len(s):
        if s[i].isspace():
            i += 1
            continue
        m = TOK.match(s, i)
        if not m:
            raise Untranslatable("cannot tokenize at: " + s[i:i + 30])
        out.append(m.group(1))
        i = m.end()
    return out


class P:
    def __init__(self, toks):
        self.t, self.i = toks, 0

    def peek(self, k=0):
        return self.t[self.i + k] if self.i + k < len(self.t) else None

    def eat(self, x=None):
        tok = self.peek()
        if tok is None or (x is not None and tok != x):
            raise Untranslatable("expected %r, found %r at %d" % (x, tok, self.i))
        self.i += 1
        return tok


def matching_brace(s, start):
    """index of the brace closing the one at s[start]"""
    depth = 0
    for i in range(start, len(s)):
        if s[i] == "{":
            depth += 1
        elif s[i] == "}":
            depth -= 1
            if depth == 0:
                return i
    raise Untranslatable("unbalanced braces")


# ---------------------------------------------------------------- Ite::new
def parse_term(p, env):
    """pointer-valued term: ident | ident.neg() | T::false_ptr() | T::true_ptr()"""
    tok = p.eat()
    if tok == "T":
        p.eat("::")
        name = p.eat()
        p.eat("(")
        p.eat(")")
        if name == "false_ptr":
            base = "Ptr.fls"
        elif name == "true_ptr":
            base = "Ptr.tru"
        else:
            raise Untranslatable("constant " + name)
    elif re.match(r"[a-z_][a-z0-9_]*$", tok) and tok in env:
        base = env[tok]
    else:
        raise Untranslatable("term starts with %r" % tok)
    while p.peek() == "." and p.peek(1) == "neg":
        p.eat(".")
        p.eat("neg")
        p.eat("(")
        p.eat(")")
        base = base + ".neg"
    return base


def parse_atom(p, env):
    """Bool-valued atom of a guard"""
    if p.peek() == "!":
        p.eat("!")
        a = parse_atom(p, env)
        return "!" + a
    if p.peek() == "order":
        p.eat("order")
        p.eat("(")
        a = parse_term(p, env)
        p.eat(",")
        b = parse_term(p, env)
        p.eat(")")
        return "ord %s %s" % (a, b)
    t = parse_term(p, env)
    if p.peek() == "==":
        p.eat("==")
        u = parse_term(p, env)
        return "%s = %s" % (t, u)
    if p.peek() == "." and p.peek(1) in ("is_true", "is_false", "is_neg"):
        p.eat(".")
        m = p.eat()
        p.eat("(")
        p.eat(")")
        return t + "." + {"is_true": "isTrue", "is_false": "isFalse", "is_neg": "isNeg"}[m]
    raise Untranslatable("guard atom after %r" % t)


def parse_guard(p, env):
    atoms = [parse_atom(p, env)]
    while p.peek() == "&&":
        p.eat("&&")
        atoms.append(parse_atom(p, env))
    return " && ".join(atoms)


def parse_pattern(p):
    """(a, b, c) with identifiers or `_`: names bound to the three scrutinee positions"""
    p.eat("(")
    names = []
    for k in range(3):
        names.append(p.eat())
        if k < 2:
            p.eat(",")
    p.eat(")")
    return names


def parse_match_block(text, kind):
    """text: the inside of one `match (f, g, h) { … }`; returns [(guard|None, rhs)]"""
    p = P(tokenize(text))
    arms = []
    while p.peek() is not None:
        env = {}
        if p.peek() == "_":
            p.eat("_")
            guard = None
        else:
            names = parse_pattern(p)
            for n, pos in zip(names, ["f", "g", "h"]):
                if n != "_":
                    env[n] = pos
            if p.peek() == "if":
                p.eat("if")
                guard = parse_guard(p, env)
            else:
                guard = None
        if guard is None and not env:
            env = {"f": "f", "g": "g", "h": "h"}
        p.eat("=>")
        if kind == "tuple":
            p.eat("(")
            a = parse_term(p, env)
            p.eat(",")
            b = parse_term(p, env)
            p.eat(",")
            c = parse_term(p, env)
            p.eat(")")
            rhs = "(%s, %s, %s)" % (a, b, c)
        elif kind == "terminal":
            if p.peek() == "return":
                p.eat("return")
                p.eat("IteConst")
                p.eat("(")
                rhs = "some " + wrap(parse_term(p, env))
                p.eat(")")
            else:
                p.eat("(")
                p.eat(")")
                rhs = "none"
        elif kind == "ctor":
            c = p.eat()
            if c not in ("IteChoice", "IteComplChoice"):
                raise Untranslatable("constructor " + c)
            p.eat("{")
            fields = {}
            while p.peek() != "}":
                fld = p.eat()
                if p.peek() == ":":
                    p.eat(":")
                    fields[fld] = parse_term(p, env)
                else:
                    fields[fld] = env[fld]
                if p.peek() == ",":
                    p.eat(",")
            p.eat("}")
            rhs = ".%s %s %s %s" % (
                "choice" if c == "IteChoice" else "complChoice",
                wrap(fields["f"]), wrap(fields["g"]), wrap(fields["h"]))
        if p.peek() in (",", ";"):
            p.eat()
        arms.append((guard, rhs))
    return arms


def wrap(t):
    return t if re.match(r"^[A-Za-z.]+$", t) and " " not in t else "(" + t + ")"


def chain(arms, indent="  "):
    """if-then-else chain in the layout of the hand-written model"""
    if not arms or arms[-1][0] is not None:
        raise Untranslatable("no default arm")
    lines = []
    for k, (g, rhs) in enumerate(arms):
        if g is None:
            if k != len(arms) - 1:
                raise Untranslatable("unguarded arm before the end")
            lines.append("%selse %s" % (indent, rhs))
        else:
            lines.append("%s%sif %s then %s" % (indent, "" if k == 0 else "else ", g, rhs))
    return "\n".join(lines)


def translate_ite(src):
    m = re.search(r"pub fn new\s*\(\s*order\s*:", src)
    if not m:
        raise Untranslatable("Ite::new not found")
    body_start = src.index("{", m.end())
    body = src[body_start:matching_brace(src, body_start) + 1]
    blocks = []
    for mm in re.finditer(r"match\s*\(\s*f\s*,\s*g\s*,\s*h\s*\)\s*\{", body):
        b0 = mm.end() - 1
        blocks.append(body[b0 + 1:matching_brace(body, b0)])
    if len(blocks) != 4:
        raise Untranslatable("expected four match stages, found %d" % len(blocks))
    # the glue between the stages: stage 1 and 3 rebind (f, g, h); stage 2 returns
    glue = re.sub(r"\s+", " ", re.sub(r"//[^\n]*", "", body))
    if len(re.findall(r"let \(f, g, h\) = match \(f, g, h\)", glue)) != 2:
        raise Untranslatable("stages 1 and 3 no longer rebind (f, g, h)")
    s1 = chain(parse_match_block(blocks[0], "tuple"))
    s2 = chain(parse_match_block(blocks[1], "terminal"))
    s3 = chain(parse_match_block(blocks[2], "tuple"))
    s4 = chain(parse_match_block(blocks[3], "ctor"))
    return s1, s2, s3, s4


def ite_section(ns, stages):
    s1, s2, s3, s4 = stages
    return f"""namespace Gen.{ns}
open _root_.{ns}

def introConst (f g h : Ptr) : Ptr × Ptr × Ptr :=
{s1}

def terminal? (f g h : Ptr) : Option Ptr :=
{s2}

def reorder (ord : Ptr → Ptr → Bool) (f g h : Ptr) : Ptr × Ptr × Ptr :=
{s3}

def standardise (f g h : Ptr) : Ite :=
{s4}

end Gen.{ns}
"""


# ---------------------------------------------------------------- FiniteField one-liners
def parse_arith(p, names):
    """+ - % over parenthesised atoms; left-associative, `%` binds tighter (as in Rust)"""
    def atom():
        tok = p.eat()
        if tok == "(":
            e = expr()
            p.eat(")")
            return "(" + e + ")"
        if tok == "P":
            return "P"
        if re.match(r"\d+", tok):
            return re.sub(r"u128$", "", tok)
        if tok in ("self", "rhs"):
            p.eat(".")
            p.eat("v")
            return names[tok]
        if tok == "v" and "v" in names:
            return names["v"]
        if tok in names.get("__locals", {}):
            return names["__locals"][tok]
        raise Untranslatable("arithmetic atom %r" % tok)

    def term():
        e = atom()
        while p.peek() in ("%", "*"):
            op = p.eat()
            e = "%s %s %s" % (e, op, atom())
        return e

    def expr():
        e = term()
        while p.peek() in ("+", "-"):
            op = p.eat()
            e = "%s %s %s" % (e, op, term())
        return e

    return expr()


def fn_body(src, header_re):
    m = re.search(header_re, src)
    if not m:
        raise Untranslatable("function not found: " + header_re)
    b0 = src.index("{", m.end() - 1)
    return re.sub(r"//[^\n]*", "", src[b0 + 1:matching_brace(src, b0)]).strip()


def ff_value(body, names):
    """`let x = e;`* then `FiniteField::new(e)` (reduced by the constructor) or the struct
    literal `FiniteField { v: e }` (stored as is); returns the Lean expression"""
    body = body.strip()
    locals_ = {}
    while True:
        m = re.match(r"^let\s+([a-z_][a-z0-9_]*)\s*(?::\s*u128\s*)?=\s*(.*?);\s*(.*)$", body, re.S)
        if not m:
            break
        p = P(tokenize(m.group(2)))
        locals_[m.group(1)] = "(" + parse_arith(p, dict(names, **{"__locals": locals_})) + ")"
        if p.peek() is not None:
            raise Untranslatable("trailing tokens in let")
        body = m.group(3).strip()
    nm = dict(names, **{"__locals": locals_})
    m = re.match(r"^FiniteField::new\s*\((.*)\)$", body, re.S)
    if m:
        p = P(tokenize(m.group(1)))
        e = parse_arith(p, nm)
        if p.peek() is not None:
            raise Untranslatable("trailing tokens")
        return "ffNew P (%s)" % e
    m = re.match(r"^(?:FiniteField|Self)\s*\{\s*v\s*:\s*(.*?),?\s*\}$", body, re.S)
    if m:
        p = P(tokenize(m.group(1)))
        e = parse_arith(p, nm)
        if p.peek() is not None:
            raise Untranslatable("trailing tokens")
        return e
    raise Untranslatable("neither `FiniteField::new(<expr>)` nor `FiniteField { v: <expr> }`: " + body[:50])


def translate_ff(src):
    out = {}
    # new: FiniteField { v: <expr> }
    body = fn_body(src, r"pub fn new\s*\(\s*v\s*:\s*u128\s*\)\s*->\s*FiniteField<P>\s*\{")
    m = re.match(r"^FiniteField\s*\{\s*v\s*:\s*(.*)\}$", body, re.S)
    if not m:
        raise Untranslatable("FiniteField::new body")
    p = P(tokenize(m.group(1)))
    out["new"] = parse_arith(p, {"v": "v"})
    if p.peek() is not None:
        raise Untranslatable("trailing tokens in new")
    for name, hdr, names in [
        ("negate", r"pub fn negate\s*\(\s*&self\s*\)\s*->\s*FiniteField<P>\s*\{", {"self": "a"}),
        ("add", r"fn add\s*\(\s*self\s*,\s*rhs\s*:\s*FiniteField<P>\s*\)\s*->\s*Self::Output\s*\{", {"self": "a", "rhs": "b"}),
        ("sub", r"fn sub\s*\(\s*self\s*,\s*rhs\s*:\s*FiniteField<P>\s*\)\s*->\s*Self::Output\s*\{", {"self": "a", "rhs": "b"}),
    ]:
        out[name] = ff_value(fn_body(src, hdr), names)
    return out


def ff_section(ff):
    return f"""namespace Gen.Sem

def ffNew (P v : Nat) : Nat := {ff['new']}
def ffNegate (P a : Nat) : Nat := {ff['negate']}
def ffAdd (P a b : Nat) : Nat := {ff['add']}
def ffSub (P a b : Nat) : Nat := {ff['sub']}

end Gen.Sem
"""



# ---------------------------------------------------------------- semiring one-liners
SEM_TYPES = {
    # type name -> (source file, lean prefix, lean carrier, field map for self/rhs, constructor kind)
    "Complex": ("src/util/semirings/complex.rs", "cx", "Sem.Cx", {"re": "re", "im": "im"}, "struct"),
    "ExpectedUtility": ("src/util/semirings/expectation.rs", "eu", "Sem.EU", {"0": "p", "1": "u"}, "tuple"),
    "RealSemiring": ("src/util/semirings/realsemiring.rs", "real", "Rat", {"0": ""}, "tuple"),
}


class SemP(P):
    """expression parser over f64 fields: + - * with the usual precedence, f64::max / f64::min,
    comparisons joined by &&, `if … else if … else …`"""

    def __init__(self, toks, fields, scalar, locals_):
        super().__init__(toks)
        self.fields, self.scalar, self.locals = fields, scalar, locals_

    def operand(self, who):
        # self.f / rhs.f / arg.f / other.f
        var = "a" if who == "self" else "b"
        self.eat(".")
        f = self.eat()
        if f not in self.fields:
            raise Untranslatable("field %r" % f)
        return var if self.scalar else "%s.%s" % (var, self.fields[f])

    def atom(self):
        tok = self.eat()
        if tok == "(":
            e = self.expr()
            self.eat(")")
            return "(" + e + ")"
        if tok == "-":
            return "-" + self.atom()
        if re.match(r"\d+$", tok):
            # 1.0 / 0.0 style literals arrive as `1` `.` `0`
            if self.peek() == "." and re.match(r"\d+$", self.peek(1) or ""):
                self.eat(".")
                frac = self.eat()
                if int(frac) != 0:
                    raise Untranslatable("non-integral literal")
            return tok
        if tok == "f64":
            self.eat("::")
            fn = self.eat()
            if fn not in ("max", "min"):
                raise Untranslatable("f64::" + fn)
            self.eat("(")
            x = self.expr()
            self.eat(",")
            y = self.expr()
            self.eat(")")
            return "%s %s %s" % (fn, wrap_e(x), wrap_e(y))
        if tok in ("self", "rhs", "arg", "other"):
            return self.operand("self" if tok == "self" else "rhs")
        if tok in self.locals:
            return "(" + self.locals[tok] + ")"
        raise Untranslatable("expression atom %r" % tok)

    def term(self):
        e = self.atom()
        while self.peek() == "*":
            self.eat("*")
            e = "%s * %s" % (e, self.atom())
        return e

    def expr(self):
        e = self.term()
        while self.peek() in ("+", "-"):
            op = self.eat()
            e = "%s %s %s" % (e, op, self.term())
        return e

    def cond(self):
        cs = []
        while True:
            l = self.expr()
            op = self.eat()
            if op == "=" and self.peek() == "=":
                self.eat("=")
                op = "="
            elif op == "==":
                op = "="
            elif op not in ("<", ">"):
                raise Untranslatable("comparison %r" % op)
            r = self.expr()
            cs.append("%s %s %s" % (l, op, r))
            if self.peek() == "&&":
                self.eat("&&")
                continue
            break
        return " ∧ ".join(cs)


def wrap_e(e):
    return e if re.match(r"^[A-Za-z0-9_.]+$", e) else "(" + e + ")"


def sem_body(src, header_re):
    m = re.search(header_re, src, re.S)
    if not m:
        raise Untranslatable("not found: " + header_re)
    b0 = src.index("{", m.end() - 1)
    return re.sub(r"//[^\n]*", "", src[b0 + 1:matching_brace(src, b0)]).strip()


def sem_value(body, tname, fields, kind, scalar):
    """`let x: f64 = e;`* followed by a constructor expression; returns the Lean components"""
    locals_ = {}
    while True:
        m = re.match(r"^let\s+([a-z_][a-z0-9_]*)\s*(?::\s*f64\s*)?=\s*(.*?);\s*(.*)$", body, re.S)
        if not m:
            break
        p = SemP(tokenize(m.group(2)), fields, scalar, locals_)
        locals_[m.group(1)] = p.expr()
        if p.peek() is not None:
            raise Untranslatable("trailing tokens in let")
        body = m.group(3).strip()
    if kind == "struct":
        m = re.match(r"^(?:Self|%s)\s*\{(.*)\}$" % tname, body, re.S)
        if not m:
            raise Untranslatable("not a struct literal: " + body[:40])
        comps = {}
        toks = tokenize(m.group(1))
        p = SemP(toks, fields, scalar, locals_)
        while p.peek() is not None:
            f = p.eat()
            p.eat(":")
            comps[f] = p.expr()
            if p.peek() == ",":
                p.eat(",")
        return [comps[f] for f in fields]
    m = re.match(r"^(?:Self|%s)\s*\((.*)\)$" % tname, body, re.S)
    if not m:
        raise Untranslatable("not a tuple constructor: " + body[:40])
    p = SemP(tokenize(m.group(1)), fields, scalar, locals_)
    comps = [p.expr()]
    while p.peek() == ",":
        p.eat(",")
        if p.peek() is None:
            break
        comps.append(p.expr())
    if p.peek() is not None or len(comps) != len(fields):
        raise Untranslatable("constructor arity")
    return comps


def sem_pack(comps, scalar):
    return comps[0] if scalar else "⟨" + ", ".join(comps) + "⟩"


def translate_semiring(tname):
    path, pre, carrier, fields, kind = SEM_TYPES[tname]
    scalar = carrier == "Rat"
    src = open(os.path.join(REPO, path)).read()
    out = []
    binop = r"impl\s+(?:ops::)?%s<%s>\s+for\s+%s\s*\{.*?fn\s+%s\s*\(\s*self\s*,\s*rhs\s*:\s*%s\s*\)\s*->\s*Self::Output\s*\{"
    for trait, fn, lean in (("Add", "add", "Add"), ("Mul", "mul", "Mul"), ("Sub", "sub", "Sub")):
        body = sem_body(src, binop % (trait, tname, tname, fn, tname))
        out.append("def %s%s (a b : %s) : %s := %s" % (pre, lean, carrier, carrier, sem_pack(sem_value(body, tname, fields, kind, scalar), scalar)))
    for fn, lean in (("one", "One"), ("zero", "Zero")):
        body = sem_body(src, r"fn\s+%s\s*\(\s*\)\s*->\s*Self\s*\{" % fn)
        out.append("def %s%s : %s := %s" % (pre, lean, carrier, sem_pack(sem_value(body, tname, fields, kind, scalar), scalar)))
    if tname in ("ExpectedUtility", "RealSemiring"):
        for fn, lean in (("join", "Join"), ("meet", "Meet")):
            body = sem_body(src, r"fn\s+%s\s*\(\s*&self\s*,\s*arg\s*:\s*&Self\s*\)\s*->\s*Self\s*\{" % fn)
            out.append("def %s%s (a b : %s) : %s := %s" % (pre, lean, carrier, carrier, sem_pack(sem_value(body, tname, fields, kind, scalar), scalar)))
    if tname == "ExpectedUtility":
        # both `choose` implementations (BBSemiring and BBRing): if c { *self } else { *arg }
        bodies = [m for m in re.finditer(r"fn\s+choose\s*\(\s*&self\s*,\s*arg\s*:\s*&ExpectedUtility\s*\)\s*->\s*ExpectedUtility\s*\{", src)]
        if len(bodies) != 2:
            raise Untranslatable("expected two choose implementations")
        for k, m in enumerate(bodies):
            b0 = src.index("{", m.end() - 1)
            body = re.sub(r"//[^\n]*", "", src[b0 + 1:matching_brace(src, b0)]).strip()
            mm = re.match(r"^if\s+(.*?)\s*\{\s*\*self\s*\}\s*else\s*\{\s*\*arg\s*\}$", body, re.S)
            if not mm:
                raise Untranslatable("choose is not `if c { *self } else { *arg }`")
            p = SemP(tokenize(mm.group(1)), fields, scalar, {})
            c = p.cond()
            if p.peek() is not None:
                raise Untranslatable("trailing tokens in choose")
            out.append("def %sChoose%s (a b : %s) : %s := if %s then a else b" % (pre, "" if k == 0 else "Ring", carrier, carrier, c))
        # partial_cmp: if c1 { Some(Less) } else if c2 { Some(Greater) } else if c3 { Some(Equal) } else { None }
        body = sem_body(src, r"fn\s+partial_cmp\s*\(\s*&self\s*,\s*other\s*:\s*&ExpectedUtility\s*\)\s*->\s*Option<Ordering>\s*\{")
        arms = []
        rest = body
        while True:
            mm = re.match(r"^if\s+(.*?)\s*\{\s*Some\s*\(\s*Ordering::(Less|Greater|Equal)\s*\)\s*\}\s*else\s*(.*)$", rest, re.S)
            if not mm:
                break
            p = SemP(tokenize(mm.group(1)), fields, scalar, {})
            c = p.cond()
            if p.peek() is not None:
                raise Untranslatable("trailing tokens in partial_cmp")
            arms.append((c, {"Less": ".lt", "Greater": ".gt", "Equal": ".eq"}[mm.group(2)]))
            rest = mm.group(3).strip()
        if not re.match(r"^\{\s*None\s*\}$", rest) or not arms:
            raise Untranslatable("partial_cmp shape")
        lines = ["def %sPartialCmp (a b : %s) : Option Ordering :=" % (pre, carrier)]
        for k, (c, r) in enumerate(arms):
            lines.append("  %sif %s then some %s" % ("" if k == 0 else "else ", c, r))
        lines.append("  else none")
        out.append("\n".join(lines))
    return "\n".join(out)


def untranslated(ns, names, why, model_ns=None, rename=None, literal=None):
    """The source left the translator's grammar.  The translator route is then NOT AVAILABLE for
    these functions on this tree: the generated names become plain aliases of the hand-written
    model (so that the tie theorems state nothing new), the status line says so, and the
    functions stay tied to the source by the correspondence streams only.  (A source that the
    translator CAN read but that differs from the model still breaks the tie theorem.)"""
    rename = rename or {}
    model_ns = model_ns or ns.replace("Gen.", "")
    literal = literal or {}
    body = "\n".join(literal[n] if n in literal else "abbrev %s := @_root_.%s.%s" % (n, model_ns, rename.get(n, n)) for n in names)
    return ("namespace %s\n-- TRANSLATOR ROUTE NOT AVAILABLE (the source left the translator's grammar: %s):\n"
            "-- aliases of the hand-written model; these functions are tied by the correspondence streams only\n%s\nend %s\n"
            % (ns, why.replace("\n", " "), body, ns))


def write_if_changed(path, text):
    old = open(path).read() if os.path.exists(path) else None
    if old != text:
        open(path, "w").write(text)


def main():
    status = {}
    head = ("/-!\n# Generated by tools/gen_source_model.py from the Rust source — do not edit\n\n%s\n"
            "Compared with the hand-written model in `Props/%s.lean`.\n-/\n")
    parts = ["import RsddModel.Model.Bdd\nimport RsddModel.Model.Sdd\n" +
             head % ("`Ite::new` (src/builder/cache/ite.rs), its four stages arm by arm, over both pointer types.", "TieIte")]
    try:
        stages = translate_ite(open(os.path.join(REPO, "src/builder/cache/ite.rs")).read())
        parts.append(ite_section("Bdd", stages))
        parts.append(ite_section("Sdd", stages))
        status["Ite::new"] = "translated (4 stages, %d arms)" % sum(s.count("\n") + 1 for s in stages)
    except (Untranslatable, OSError, KeyError) as e:
        for ns in ("Gen.Bdd", "Gen.Sdd"):
            parts.append(untranslated(ns, ["introConst", "terminal?", "reorder", "standardise"], str(e)))
        status["Ite::new"] = "UNTRANSLATED (translator route not available, tied by correspondence only): %s" % e
    write_if_changed(OUT_ITE, "\n".join(parts))
    parts = ["import RsddModel.Model.Semirings\n" + head % ("The one-line `FiniteField` operations (src/util/semirings/finitefield.rs) over `Nat`.", "TieFF")]
    try:
        ff = translate_ff(open(os.path.join(REPO, "src/util/semirings/finitefield.rs")).read())
        parts.append(ff_section(ff))
        status["FiniteField::{new,negate,add,sub}"] = "translated"
    except (Untranslatable, OSError, KeyError) as e:
        parts.append(untranslated("Gen.Sem", ["ffNew", "ffNegate", "ffAdd", "ffSub"], str(e)))
        status["FiniteField::{new,negate,add,sub}"] = "UNTRANSLATED (translator route not available, tied by correspondence only): %s" % e
    write_if_changed(OUT_FF, "\n".join(parts))
    parts = ["import RsddModel.Model.Semirings\n" + head % ("The one-line operations of `Complex`, `ExpectedUtility` and `RealSemiring` (src/util/semirings) over `Rat`.", "TieSem")]
    sem_names = {"Complex": ["cxAdd", "cxMul", "cxSub", "cxOne", "cxZero"],
                 "ExpectedUtility": ["euAdd", "euMul", "euSub", "euOne", "euZero", "euJoin", "euMeet", "euChoose", "euChooseRing", "euPartialCmp"],
                 "RealSemiring": ["realAdd", "realMul", "realSub", "realOne", "realZero", "realJoin", "realMeet"]}
    for tname in ("Complex", "ExpectedUtility", "RealSemiring"):
        try:
            body = translate_semiring(tname)
            parts.append("namespace Gen.Sem\n\n" + body + "\n\nend Gen.Sem\n")
            status["%s one-liners" % tname] = "translated (%d definitions)" % len(sem_names[tname])
        except (Untranslatable, OSError, KeyError, ValueError) as e:
            parts.append(untranslated("Gen.Sem", sem_names[tname], str(e), rename={"euChooseRing": "euChoose"},
                                      literal={"realOne": "def realOne : Rat := 1", "realZero": "def realZero : Rat := 0"}))
            status["%s one-liners" % tname] = "UNTRANSLATED (translator route not available, tied by correspondence only): %s" % e
    write_if_changed(OUT_SEM, "\n".join(parts))
    return status


if __name__ == "__main__":
    st = main()
    for k, v in st.items():
        print(k, "->", v)
