#!/usr/bin/env python3
"""A small lexer + recursive-descent parser for the subset of Rust that the translators of the
translator route need (tools/gen_dnnf.py).  Pure syntax: no name resolution, no types.

AST (tuples):
  expressions
    ("path", [seg, …])                 x, BddPtr::PtrTrue, Self::f   (turbofish arguments are dropped)
    ("lit", text)                      numbers, true, false, strings
    ("call", fn_expr, [args])
    ("mcall", recv, name, [args])      recv.name(args)   (turbofish dropped)
    ("field", recv, name)              recv.name / recv.0
    ("unary", op, e)                   op ∈ ! - * & &mut
    ("binary", op, l, r)
    ("assign", op, lhs, rhs)           op ∈ = += -= *=
    ("if", cond, block, else|None)     cond may be ("letcond", pat, e)
    ("match", scrut, [(pat, guard|None, body)])
    ("block", [stmts], tail|None)      also `unsafe { … }`
    ("return", e|None)
    ("tuple", [es])                    () is ("tuple", [])
    ("array", [es])
    ("closure", [pats], body)
    ("macro", name, [tokens])
    ("for", pat, iter, block)
    ("cast", e, type_text)
    ("index", e, idx)
  statements
    ("let", pat, type_text|None, init|None)
    ("expr", e, has_semicolon)
    ("item", kind)                     nested fn / use: kept out of the way
  patterns
    ("wild",) ("bind", name, is_mut) ("ppath", [segs]) ("ptuplestruct", [segs], [pats])
    ("ptuple", [pats]) ("por", [pats]) ("plit", text) ("pref", pat)
"""
import re


class ParseError(Exception):
    pass


PUNCT = ["..=", "::", "->", "=>", "==", "!=", "<=", ">=", "&&", "||", "+=", "-=", "*=", "..",
         "(", ")", "{", "}", "[", "]", ",", ".", "!", ":", ";", "=", "+", "-", "*", "/", "%", "<", ">",
         "&", "|", "_", "#", "?", "@", "^", "$"]


def lex(src):
    """-> list of (kind, text); kinds: id num str life p"""
    out, i, n = [], 0, len(src)
    while i < n:
        c = src[i]
        if c.isspace():
            i += 1
            continue
        if src.startswith("//", i):
            j = src.find("\n", i)
            i = n if j < 0 else j
            continue
        if src.startswith("/*", i):
            j = src.find("*/", i + 2)
            if j < 0:
                raise ParseError("unterminated comment")
            i = j + 2
            continue
        if c == '"':
            j = i + 1
            while j < n and src[j] != '"':
                j += 2 if src[j] == "\\" else 1
            out.append(("str", src[i:j + 1]))
            i = j + 1
            continue
        if c == "'":
            m = re.match(r"'([A-Za-z_][A-Za-z0-9_]*)(?!')", src[i:])
            if m:
                out.append(("life", m.group(0)))
                i += m.end()
                continue
            m = re.match(r"'(\\.|[^'\\])'", src[i:])
            if m:
                out.append(("str", m.group(0)))
                i += m.end()
                continue
            raise ParseError("bad quote")
        m = re.match(r"[A-Za-z_][A-Za-z0-9_]*", src[i:])
        if m and not (m.group(0) == "_"):
            out.append(("id", m.group(0)))
            i += m.end()
            continue
        m = re.match(r"\d[\d_]*(\.\d+)?([a-z]\d+|usize|isize)?", src[i:])
        if m:
            out.append(("num", m.group(0)))
            i += m.end()
            continue
        for p in PUNCT:
            if src.startswith(p, i):
                out.append(("p", p))
                i += len(p)
                break
        else:
            raise ParseError("cannot tokenize at: " + src[i:i + 20])
    return out


BLOCKLIKE = ("if", "match", "block", "for", "while", "loop")


class Parser:
    def __init__(self, toks, pos=0):
        self.t, self.i = toks, pos

    # ---- token helpers
    def peek(self, k=0):
        j = self.i + k
        return self.t[j] if j < len(self.t) else ("eof", "")

    def at(self, text, k=0):
        tok = self.peek(k)
        return tok[1] == text and tok[0] in ("p", "id")

    def eat(self, text=None):
        tok = self.peek()
        if tok[0] == "eof" or (text is not None and tok[1] != text):
            raise ParseError("expected %r, found %r (token %d)" % (text, tok[1], self.i))
        self.i += 1
        return tok[1]

    def eat_id(self):
        tok = self.peek()
        if tok[0] != "id":
            raise ParseError("expected identifier, found %r" % (tok[1],))
        self.i += 1
        return tok[1]

    # ---- balanced skipping
    def skip_generics(self):
        """at `<`: skip to the matching `>`; returns the text"""
        depth, start = 0, self.i
        while True:
            tok = self.eat()
            if tok == "<":
                depth += 1
            elif tok == ">":
                depth -= 1
                if depth == 0:
                    break
            elif tok == "->":
                pass
            elif tok in ("{", ";") and False:
                raise ParseError("runaway generics")
        return " ".join(x[1] for x in self.t[start:self.i])

    def parse_type(self):
        """a type, as text; stops at , ) = { ; > | at depth 0 (or `where`)"""
        depth, start = 0, self.i
        while True:
            tok = self.peek()
            if tok[0] == "eof":
                break
            x = tok[1]
            if depth == 0 and (x in (",", ")", "=", "{", ";", ">", "|", "]") or (tok[0] == "id" and x == "where")):
                break
            if x in ("<", "(", "["):
                depth += 1
            elif x in (">", ")", "]"):
                depth -= 1
            self.i += 1
        return " ".join(x[1] for x in self.t[start:self.i])

    # ---- functions
    def parse_fn(self):
        """at `fn`: -> dict(name, params=[(name|'self', type_text)], ret, body)"""
        self.eat("fn")
        name = self.eat_id()
        if self.at("<"):
            self.skip_generics()
        self.eat("(")
        params = []
        while not self.at(")"):
            start = self.i
            # self forms
            j = self.i
            toks = []
            while self.t[j][1] in ("&", "mut") or self.t[j][0] == "life":
                toks.append(self.t[j][1])
                j += 1
            if self.t[j] == ("id", "self"):
                self.i = j + 1
                if self.at(":"):
                    self.eat(":")
                    self.parse_type()
                params.append(("self", " ".join(toks + ["self"])))
            else:
                self.i = start
                pat = self.parse_pattern()
                self.eat(":")
                ty = self.parse_type()
                params.append((pat, ty))
            if self.at(","):
                self.eat(",")
        self.eat(")")
        ret = None
        if self.at("->"):
            self.eat("->")
            ret = self.parse_type()
        if self.at("where"):
            while not self.at("{") and not self.at(";"):
                self.i += 1
        if self.at(";"):
            self.eat(";")
            return dict(name=name, params=params, ret=ret, body=None)
        body = self.parse_block()
        return dict(name=name, params=params, ret=ret, body=body)

    # ---- patterns
    def parse_pattern(self):
        alts = [self.parse_pattern1()]
        while self.at("|"):
            self.eat("|")
            alts.append(self.parse_pattern1())
        return alts[0] if len(alts) == 1 else ("por", alts)

    def parse_pattern1(self):
        tok = self.peek()
        if tok == ("p", "_"):
            self.eat()
            return ("wild",)
        if tok == ("p", "&"):
            self.eat()
            if self.at("mut"):
                self.eat()
            return ("pref", self.parse_pattern1())
        if tok == ("p", "("):
            self.eat()
            ps = []
            while not self.at(")"):
                ps.append(self.parse_pattern())
                if self.at(","):
                    self.eat(",")
            self.eat(")")
            return ("ptuple", ps)
        if tok == ("p", "["):
            self.eat()
            ps = []
            while not self.at("]"):
                ps.append(self.parse_pattern())
                if self.at(","):
                    self.eat(",")
            self.eat("]")
            return ("pslice", ps)
        if tok[0] in ("num", "str") or tok == ("id", "true") or tok == ("id", "false"):
            self.eat()
            return ("plit", tok[1])
        if tok[0] == "id":
            is_mut = False
            if tok[1] == "ref":
                self.eat()
                tok = self.peek()
            if tok[1] == "mut":
                self.eat()
                is_mut = True
            segs = [self.eat_id()]
            while self.at("::"):
                self.eat("::")
                segs.append(self.eat_id())
            if self.at("("):
                self.eat("(")
                ps = []
                while not self.at(")"):
                    ps.append(self.parse_pattern())
                    if self.at(","):
                        self.eat(",")
                self.eat(")")
                return ("ptuplestruct", segs, ps)
            if self.at("{"):
                raise ParseError("struct pattern")
            if len(segs) == 1 and re.match(r"[a-z_]", segs[0]):
                return ("bind", segs[0], is_mut)
            return ("ppath", segs)
        raise ParseError("pattern starts with %r" % (tok[1],))

    # ---- blocks / statements
    def parse_block(self):
        self.eat("{")
        stmts, tail = [], None
        while not self.at("}"):
            if self.at(";"):
                self.eat(";")
                continue
            if self.at("#"):
                self.eat("#")
                if self.at("!"):
                    self.eat("!")
                self.skip_balanced("[", "]")
                continue
            if self.at("let"):
                self.eat("let")
                pat = self.parse_pattern()
                ty = None
                if self.at(":"):
                    self.eat(":")
                    ty = self.parse_type()
                init = None
                if self.at("="):
                    self.eat("=")
                    init = self.parse_expr()
                if self.at("else"):
                    raise ParseError("let-else")
                self.eat(";")
                stmts.append(("let", pat, ty, init))
                continue
            if self.at("use"):
                while not self.at(";"):
                    self.i += 1
                self.eat(";")
                stmts.append(("item", "use"))
                continue
            if self.at("fn") or (self.at("pub") and self.at("fn", 1)):
                if self.at("pub"):
                    self.eat()
                f = self.parse_fn()
                stmts.append(("item", "fn", f))
                continue
            e = self.parse_expr(stmt=True)
            if self.at(";"):
                self.eat(";")
                stmts.append(("expr", e, True))
            elif self.at("}"):
                tail = e
            elif e[0] in BLOCKLIKE:
                stmts.append(("expr", e, False))
            else:
                raise ParseError("expected ; or } after expression, found %r" % (self.peek()[1],))
        self.eat("}")
        return ("block", stmts, tail)

    def skip_balanced(self, o, c):
        self.eat(o)
        depth = 1
        start = self.i
        while depth:
            x = self.eat()
            if x == o:
                depth += 1
            elif x == c:
                depth -= 1
        return self.t[start:self.i - 1]

    # ---- expressions
    BINPREC = [("||",), ("&&",), ("==", "!=", "<", ">", "<=", ">="), ("|",), ("^",), ("&",), ("+", "-"), ("*", "/", "%")]

    def parse_expr(self, nostruct=False, stmt=False):
        if self.at("return"):
            self.eat()
            if self.at(";") or self.at("}") or self.at(","):
                return ("return", None)
            return ("return", self.parse_expr(nostruct))
        if self.at("break") or self.at("continue"):
            raise ParseError("break/continue")
        if self.at("|") or self.at("||") or (self.at("move") and (self.at("|", 1) or self.at("||", 1))):
            return self.parse_closure()
        lhs = self.parse_bin(0, nostruct, stmt)
        if self.peek()[0] == "p" and self.peek()[1] in ("=", "+=", "-=", "*="):
            op = self.eat()
            rhs = self.parse_expr(nostruct)
            return ("assign", op, lhs, rhs)
        if self.at("..") or self.at("..="):
            raise ParseError("range expression")
        return lhs

    def parse_closure(self):
        if self.at("move"):
            self.eat()
        params = []
        if self.at("||"):
            self.eat()
        else:
            self.eat("|")
            while not self.at("|"):
                params.append(self.parse_pattern1())
                if self.at(":"):
                    self.eat(":")
                    self.parse_type()
                if self.at(","):
                    self.eat(",")
            self.eat("|")
        if self.at("->"):
            self.eat()
            self.parse_type()
        body = self.parse_expr()
        return ("closure", params, body)

    def parse_bin(self, level, nostruct, stmt=False):
        if level == len(self.BINPREC):
            return self.parse_cast(nostruct, stmt)
        lhs = self.parse_bin(level + 1, nostruct, stmt)
        if stmt and lhs[0] in BLOCKLIKE:
            return lhs      # `if … {}` / `match … {}` in statement position end the expression
        while self.peek()[0] == "p" and self.peek()[1] in self.BINPREC[level]:
            # `|` / `||` at the start of a closure never follow an operand, so no ambiguity here
            op = self.eat()
            rhs = self.parse_bin(level + 1, nostruct)
            lhs = ("binary", op, lhs, rhs)
        return lhs

    def parse_cast(self, nostruct, stmt=False):
        e = self.parse_unary(nostruct, stmt)
        while self.at("as"):
            self.eat()
            e = ("cast", e, self.parse_type())
        return e

    def parse_unary(self, nostruct, stmt=False):
        tok = self.peek()
        if tok[0] == "p" and tok[1] in ("!", "-", "*"):
            self.eat()
            return ("unary", tok[1], self.parse_unary(nostruct))
        if tok == ("p", "&") or tok == ("p", "&&"):
            self.eat()
            op = "&"
            if self.at("mut"):
                self.eat()
                op = "&mut"
            e = ("unary", op, self.parse_unary(nostruct))
            return ("unary", "&", e) if tok[1] == "&&" else e
        return self.parse_postfix(nostruct, stmt)

    def parse_args(self):
        self.eat("(")
        args = []
        while not self.at(")"):
            args.append(self.parse_expr())
            if self.at(","):
                self.eat(",")
        self.eat(")")
        return args

    def parse_postfix(self, nostruct, stmt=False):
        e = self.parse_primary(nostruct)
        if stmt and e[0] in BLOCKLIKE:
            # a block-like expression statement is not continued by `.`/`(` unless … (rare): stop
            if not self.at("."):
                return e
        while True:
            if self.at("."):
                self.eat(".")
                tok = self.peek()
                if tok[0] == "num":
                    self.eat()
                    e = ("field", e, tok[1])
                    continue
                name = self.eat_id()
                if name == "await":
                    raise ParseError("await")
                if self.at("::"):
                    self.eat("::")
                    self.skip_generics()
                if self.at("("):
                    e = ("mcall", e, name, self.parse_args())
                else:
                    e = ("field", e, name)
                continue
            if self.at("("):
                e = ("call", e, self.parse_args())
                continue
            if self.at("["):
                self.eat("[")
                idx = self.parse_expr()
                self.eat("]")
                e = ("index", e, idx)
                continue
            if self.at("?"):
                raise ParseError("? operator")
            return e

    def parse_primary(self, nostruct):
        tok = self.peek()
        if tok[0] in ("num", "str"):
            self.eat()
            return ("lit", tok[1])
        if tok == ("p", "("):
            self.eat()
            es, trailing = [], False
            while not self.at(")"):
                es.append(self.parse_expr())
                trailing = False
                if self.at(","):
                    self.eat(",")
                    trailing = True
            self.eat(")")
            if len(es) == 1 and not trailing:
                return es[0]
            return ("tuple", es)
        if tok == ("p", "["):
            self.eat()
            es = []
            while not self.at("]"):
                es.append(self.parse_expr())
                if self.at(","):
                    self.eat(",")
                elif self.at(";"):
                    raise ParseError("array repeat")
            self.eat("]")
            return ("array", es)
        if tok == ("p", "{"):
            return self.parse_block()
        if tok[0] != "id":
            raise ParseError("expression starts with %r" % (tok[1],))
        kw = tok[1]
        if kw in ("true", "false"):
            self.eat()
            return ("lit", kw)
        if kw == "unsafe" and self.at("{", 1):
            self.eat()
            return self.parse_block()
        if kw == "if":
            return self.parse_if()
        if kw == "match":
            self.eat()
            scrut = self.parse_expr(nostruct=True)
            self.eat("{")
            arms = []
            while not self.at("}"):
                if self.at("|"):
                    self.eat("|")
                pat = self.parse_pattern()
                guard = None
                if self.at("if"):
                    self.eat()
                    guard = self.parse_expr(nostruct=True)
                self.eat("=>")
                body = self.parse_expr(stmt=True)
                if self.at(","):
                    self.eat(",")
                elif not self.at("}") and body[0] not in BLOCKLIKE:
                    raise ParseError("expected , after match arm")
                arms.append((pat, guard, body))
            self.eat("}")
            return ("match", scrut, arms)
        if kw == "for":
            self.eat()
            pat = self.parse_pattern()
            self.eat("in")
            it = self.parse_expr(nostruct=True)
            body = self.parse_block()
            return ("for", pat, it, body)
        if kw in ("while", "loop"):
            raise ParseError(kw + " loop")
        # path (possibly a macro / struct literal)
        segs = [self.eat_id()]
        while True:
            if self.at("::"):
                self.eat("::")
                if self.at("<"):
                    self.skip_generics()
                    continue
                segs.append(self.eat_id())
                continue
            break
        if self.at("!") and not self.at("!=") and self.peek(1)[1] in ("(", "[", "{"):
            self.eat("!")
            o = self.peek()[1]
            toks = self.skip_balanced(o, {"(": ")", "[": "]", "{": "}"}[o])
            return ("macro", segs[-1], toks)
        if self.at("{") and not nostruct and re.match(r"[A-Z]", segs[-1]):
            raise ParseError("struct literal " + "::".join(segs))
        return ("path", segs)

    def parse_if(self):
        self.eat("if")
        if self.at("let"):
            self.eat()
            pat = self.parse_pattern()
            self.eat("=")
            scrut = self.parse_expr(nostruct=True)
            cond = ("letcond", pat, scrut)
        else:
            cond = self.parse_expr(nostruct=True)
        then = self.parse_block()
        els = None
        if self.at("else"):
            self.eat()
            els = self.parse_if() if self.at("if") else self.parse_block()
        return ("if", cond, then, els)


def find_fns(toks, name):
    """all functions called `name` in the token list (any nesting), parsed"""
    out = []
    for i in range(len(toks) - 1):
        if toks[i] == ("id", "fn") and toks[i + 1] == ("id", name):
            p = Parser(toks, i)
            out.append(p.parse_fn())
    return out


def has_return(e):
    """does the expression contain a `return` (not looking into closures / nested fns)?"""
    if not isinstance(e, tuple) or not e:
        return False
    if e[0] == "return":
        return True
    if e[0] in ("closure",):
        return False
    if e[0] == "item":
        return False
    for x in e[1:]:
        if isinstance(x, tuple) and has_return(x):
            return True
        if isinstance(x, list):
            for y in x:
                if isinstance(y, tuple) and has_return(y):
                    return True
    return False
