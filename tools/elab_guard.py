#!/usr/bin/env python3
"""Elaboration guard for the translators: a generated definition that does not elaborate is a
sign that the translator misread the source (outside its grammar in a way it did not notice) —
it must become `UNTRANSLATED` (alias of the model), never a broken build.  A definition that
elaborates but differs from the model is left alone: the tie theorem then fails, which is the
signal the translator route exists for."""
import os, re, subprocess

ROOT = os.path.dirname(os.path.dirname(os.path.abspath(__file__)))
LEAN = os.path.join(ROOT, "lean")


def failing_lines(path):
    """line numbers of `error:` messages when elaborating `path` alone (its imports must be built)"""
    try:
        p = subprocess.run(["lake", "env", "lean", os.path.relpath(path, LEAN)], cwd=LEAN, stdout=subprocess.PIPE,
                           stderr=subprocess.STDOUT, text=True, timeout=600)
    except Exception as e:  # noqa: BLE001
        return None, str(e)
    errs = [int(m.group(1)) for m in re.finditer(r":(\d+):\d+: error", p.stdout)]
    return errs, p.stdout


def guard(path, header, items, footer):
    """items: list of dicts {key, text, alias}; writes header + texts + footer to `path`; if the file
    changed, elaborates it; every item containing an error line is replaced by its alias (repeated
    until the file elaborates or nothing is left to replace).  Returns {key: reason} for the items
    that fell back."""
    fell = {}

    def render():
        parts, spans, line = [header], [], header.count("\n") + 1
        for it in items:
            t = it["alias"] if it["key"] in fell else it["text"]
            n = t.count("\n") + 1
            spans.append((line, line + n, it["key"]))
            parts.append(t)
            line += n + 1      # items are joined by a blank line
        parts.append(footer)
        return "\n".join(parts), spans

    text, spans = render()
    old = open(path).read() if os.path.exists(path) else None
    if old == text:
        return fell
    open(path, "w").write(text)
    for _ in range(len(items) + 1):
        errs, out = failing_lines(path)
        if errs is None or not errs:
            break
        bad = {k for (a, b, k) in spans for e in errs if a <= e < b and k not in fell}
        if not bad:
            break
        for k in bad:
            fell[k] = "does not elaborate"
        text, spans = render()
        open(path, "w").write(text)
    return fell
