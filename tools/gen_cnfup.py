#!/usr/bin/env python3
"""Translator (translator route, group `cnfup`): regenerates Lean definitions from the Rust text of

* src/repr/var_label.rs  (`Literal` bit packing, `VarSet` one-liners),
* src/repr/model.rs      (`PartialModel`),
* src/repr/cnf.rs        (`Cnf::{new, num_vars, eval, is_sat_partial, condition, wmc, var_in_cnf}`,
                          `CnfHasher::{decide, push, pop, hash}`),
* src/repr/unit_prop.rs  (`UnitPropagate::{new, decide}`, `SATSolver::{new, pop, decide, is_sat,
                          cur_hash, is_set, difference_iter, update_hash_and_sat_set}`) — all registered in `FUNCS`

into `lean/RsddModel/Model/GenCnfUp.lean`; `lean/RsddModel/Props/TieCnfUp.lean` proves the regenerated
definitions equal to the hand-written models (`Model/CnfUtil.lean`, `Model/UnitProp.lean`).

How it works
------------
1. a tokenizer and a recursive-descent parser for a Rust subset (items are located by `impl` block +
   `fn` name; bodies are parsed into an AST: `let`, assignment, `if`/`else`, `if let`, `match` with
   guards, `for` / `loop` with labels, `break` / `continue` / `return`, closures, method chains, struct
   literals, tuples, indexing, casts, macros `assert!` / `vec!`);
2. a small compiler from that AST to a pure Lean term:
   * a mutable local / a field of `&mut self` is re-bound (`let x := …`), state is passed explicitly;
   * `if`/`match` statements return the tuple of the variables they assign;
   * `for x in it { body }` without `break`/`return` is `List.foldl (fun st x => …) st it`;
     with `break` / `return` / a labelled `continue` of an outer loop it is `TieAux.forStep it st body`
     (`Step.go` = next iteration, `Step.brk` = break, `Step.ret` = leave with a value) — the
     combinator is defined in `Lemmas/TieCnfUpAux.lean`;
   * `loop { … }` (only in `UnitPropagate::decide`) is a recursion on fuel exactly as the model does it:
     `continue` = recursive call with the current state, `break` = the code after the loop;
   * a Rust panic that the model represents (`assert!`, strict indexing, `last().unwrap()`) is `none`
     in functions whose specification (table `SPECS`) says `panic=True`.
3. every function is translated independently; anything outside the grammar / the mapping table raises
   `Untranslatable` and that function (only) falls back to an alias of the hand-written model with the
   status `UNTRANSLATED (…)`.

TRUSTED MAPPING TABLE (Rust → Lean); everything else is translated structurally
-------------------------------------------------------------------------------
erased (identity):  `&e` `&mut e` `*e` `e.clone()` `.iter()` `.into_iter()` `.copied()` `.cloned()`
                    `.as_slice()` `.as_ref()` `.to_vec()` `.collect()` `e as usize|u64|u128`
                    `VarLabel::new(e)` `VarLabel::new_usize(e)` `VarLabel(e)` `.value()` `.value_usize()`
                    `label.0` (for `label : VarLabel`)
literals:           `l.label()` ↦ `l.var`, `l.polarity()` ↦ `l.pol`, `Literal::new(x, b)` ↦ `Lit.mk x b`
                    (inside var_label.rs itself the word-level functions are used: `bfGet`/`bfSet` with the
                    bit ranges READ from the `BITFIELD!` invocation)
`u128`:             `a.wrapping_mul(b)` ↦ `wmul a b`
`Vec`/slices:       `.len()` ↦ `.length`, `.is_empty()` ↦ `.isEmpty`, `v.push(x)` ↦ `v := v ++ [x]`,
                    `v.pop()` ↦ `v := v.dropLast` (stacks whose model keeps the top at the head:
                    `push` ↦ cons, `pop` ↦ `tail`, `last()` ↦ head; table STACKS), `v[i]` ↦ `v.getD i d`
                    (or `v[i]?` + panic when listed strict), `.contains(&x)` ↦ `.contains x`,
                    `.iter().map(f)` ↦ `.map f`, `.filter(p)` ↦ `.filter p`, `.any`/`.all`, `.count()` ↦ `.length`,
                    `.enumerate()` ↦ `List.zipIdx`, `a.chain(b)` ↦ `a ++ b`, `(a..b)` ↦ `List.range' a (b-a)`,
                    `.sort_by_key(|a| a.label().value())` ↦ `sortByLabel`/`isort leLabel`, `.sort()` ↦ `isort leLit`,
                    `.dedup()` ↦ `dedupAdj`, `.max().unwrap_or(0)` ↦ `foldl max 0`, `vec![x; n]` ↦ `List.replicate n x`,
                    `swap_remove(i)` ↦ `swapRemove`
`BitSet` (VarSet):  `insert`/`remove`/`contains`/`union`/`difference`/`intersection`/`len`/`is_empty` ↦ the `VarSet`
                    list operations of `Model/CnfUtil.lean` (`VarSet` is the ascending list of members)
`BitSet` (SATSolver::sat_clauses): `contains i` ↦ `s i`, `insert i` ↦ `setInsert s i`, `len()` ↦ `satCount n s`
`HashSet<usize>` (CnfHasher::state): `remove(i)` ↦ `filter (· != i)` (ascending list of indices)
`PartialModel` in unit_prop.rs (model = `Nat → Option Bool`): `m.get(x)` ↦ `m x`, `m.set(x,b)` ↦ `PModel.set`,
                    `m.is_set(x)` ↦ `(m x).isSome`, `a.difference(&b)` ↦ `pmDifference numVars a b`,
                    `PartialModel::new(n)` ↦ `PModel.empty`
watch lists:        `self.watch_list_pos[i]` ↦ `wl.get true i`, `self.watch_list_neg[i]` ↦ `wl.get false i`,
                    `….push(c)` / `….swap_remove(k)` ↦ `wl.upd …`
occurrence lists:   `self.contains_pos_lit[v].iter()` ↦ `containsLit clauses true v` (the model computes them on demand)
primes:             `primal::Primes::all()` ↦ the state `1` ("last prime handed out"), `primes.next().unwrap()` ↦
                    `primes := nextPrime primes` (a `.map` closure that advances it becomes `TieAux.mapAccum`)
`Option`:           `x.unwrap()` on a value of kind option (field `cur`) ↦ `x.getD default`; `is_none()`/`is_some()`
`VarSet ==`:        derived `PartialEq` ↦ field-wise `==` of the member lists (`BitSet` equality is extensional)
`AssignmentIter`:   `AssignmentIter::new(n)` used as an iterator ↦ `assignmentIter n`; `next` itself is tied to the literal
                    mirror `TieAux.iterNext`, and `TieAux.drain_eq` proves that draining it yields `assignmentIter n`
unit_prop.rs:       `UnitPropResult::UNSAT` ↦ `some (wl, none)`, `PartialSAT(m)` ↦ `some (wl, some m)`, fuel exhausted ↦ `none`;
                    `self.decide(m, l)` inside the loop ↦ `decideK (upLoop cnf fuel) wl m l`; `self.up.decide(m, l)` ↦
                    `decideK (loop s.cnf true s.fuel) wl m l`; `self.cnf.clauses()` ↦ `cnf`; `self.top_state()` ↦ head of
                    `s.stack` (panic = `none` / `.error`); `S[S.len() - 2]` ↦ `stack[1]?`; `DecisionResult::X` ↦ `.x`;
                    `self.update_hash_and_sat_set(m)` ↦ the model's `updateHashAndSatSet s.clauses s.numVars top m`
SATSolver::new:     `UnitPropagate::new(cnf)` ↦ `upNew cnf true (defaultFuel cnf)`; the struct fields `contains_pos_lit` /
                    `contains_neg_lit` do not exist in the model: the statements that only build them are SKIPPED (trusted)
UnitPropagate::new: the local `watch_list_pos/neg` vectors ↦ one `wl : WL` (`Vec::new()` ↦ `WL.empty`, pushing empty inner
                    vectors is a no-op because an absent position reads as `[]`), `cur.decide(m, l)` ↦
                    `decideK (loop cnf true fuel) wl m l`; Rust `None` ↦ `some none`, fuel exhausted ↦ `none`
more idioms:        `.windows(n)` ↦ `TieAux.windows n`, `.zip(b)` ↦ `List.zip`, `.take(n)`/`.skip(n)` ↦ `take`/`drop` (on the prime
                    iterator: `primesAfter n 1` / `primesFrom n 1`), `.rev()`, `.first()` ↦ `head?`, `.last()` ↦ `getLast?`,
                    `.position(p)` ↦ `List.findIdx? p`, `.find(p)` ↦ `List.find? p`, `.sum()`, `v.extend(x)` ↦ `v ++ x` (`++ x.toList`
                    for an `Option`), `binary_search(&x).is_ok()` ↦ `TieAux.binarySearchOk` (a literal bisection, NOT membership),
                    `Option::{map, map_or, and_then, unwrap_or, is_some, is_none}`, `usize::from(b)` ↦ `if b then 1 else 0`,
                    `drop(e);` ↦ `e;`, `let w = if c { WL[i].swap_remove(k) } else { WL'[j].swap_remove(k) }` ↦ value + `wl.upd`
elaboration guard:  after translation the whole generated file is elaborated once with `lake env lean`; a definition
                    that does not elaborate falls back to its alias (status UNTRANSLATED "does not elaborate");
                    set GEN_CNFUP_NOCHECK=1 to skip
"""
import os, re, sys

ROOT = os.path.dirname(os.path.dirname(os.path.abspath(__file__)))
REPO = os.environ.get("VERIF_REPO", "/repo")
OUT = os.path.join(ROOT, "lean", "RsddModel", "Model", "GenCnfUp.lean")


class Untranslatable(Exception):
    pass


# =============================================================================================
# tokenizer
# =============================================================================================
TOK = re.compile(r"""
    (?P<ws>\s+|//[^\n]*|/\*.*?\*/)
  | (?P<str>"(?:[^"\\]|\\.)*")
  | (?P<life>'[A-Za-z_][A-Za-z0-9_]*(?!'))
  | (?P<chr>'(?:[^'\\]|\\.)')
  | (?P<num>\d[\d_]*(?:\.\d+)?(?:[iu](?:8|16|32|64|128|size)|f32|f64)?)
  | (?P<id>[A-Za-z_][A-Za-z0-9_]*)
  | (?P<op>\.\.=|\.\.\.|<<=|>>=|::|->|=>|==|!=|<=|>=|&&|\|\||\+=|-=|\*=|/=|%=|\^=|&=|\|=|<<|>>|\.\.|[-+*/%^!&|=<>@.,;:#$?~(){}\[\]])
""", re.X | re.S)


def tokenize(s):
    out, i = [], 0
    while i < len(s):
        m = TOK.match(s, i)
        if not m:
            raise Untranslatable("cannot tokenize at: " + s[i:i + 30])
        i = m.end()
        k = m.lastgroup
        if k == "ws":
            continue
        out.append((k, m.group(k)))
    return out


# =============================================================================================
# parser (expressions / statements / patterns); types are skipped
# =============================================================================================
BINOPS = [  # precedence levels, loosest first
    ["||"], ["&&"], ["==", "!=", "<", ">", "<=", ">="], ["|"], ["^"], ["&"], ["<<", ">>"],
    ["+", "-"], ["*", "/", "%"],
]
ASSIGN_OPS = ["=", "+=", "-=", "*=", "/=", "%=", "&=", "|=", "^=", "<<=", ">>="]


class Parser:
    def __init__(self, toks):
        self.t, self.i = toks, 0

    # -- token helpers
    def peek(self, k=0):
        return self.t[self.i + k][1] if self.i + k < len(self.t) else None

    def kind(self, k=0):
        return self.t[self.i + k][0] if self.i + k < len(self.t) else None

    def eat(self, x=None):
        tok = self.peek()
        if tok is None or (x is not None and tok != x):
            raise Untranslatable("parse: expected %r, found %r (token %d)" % (x, tok, self.i))
        self.i += 1
        return tok

    def accept(self, x):
        if self.peek() == x:
            self.i += 1
            return True
        return False

    # -- types (skipped, returned as text)
    def skip_type(self):
        start = self.i
        depth = 0
        while True:
            tok = self.peek()
            if tok is None:
                break
            if tok in ("(", "[", "<"):
                depth += 1
            elif tok in (")", "]", ">"):
                if depth == 0:
                    break
                depth -= 1
            elif tok == ">>":
                if depth < 2:
                    if depth == 0:
                        break
                    raise Untranslatable("type: stray >>")
                depth -= 2
            elif depth == 0 and tok in (",", ";", "=", "{", "|", "=>", ")"):
                break
            elif depth == 0 and tok == "where":
                break
            self.i += 1
        return " ".join(x[1] for x in self.t[start:self.i])

    # -- patterns
    def pattern(self):
        p = self.pattern1()
        if self.peek() == "|" :
            alts = [p]
            while self.accept("|"):
                alts.append(self.pattern1())
            return ("por", alts)
        return p

    def pattern1(self):
        tok = self.peek()
        if tok == "_":
            self.eat()
            return ("pwild",)
        if tok in ("&", "&&"):
            self.eat()
            self.accept("mut")
            return self.pattern1()
        if tok in ("ref", "mut"):
            self.eat()
            return self.pattern1()
        if tok == "(":
            self.eat()
            ps = []
            while self.peek() != ")":
                ps.append(self.pattern())
                if not self.accept(","):
                    break
            self.eat(")")
            return ps[0] if len(ps) == 1 else ("ptuple", ps)
        if self.kind() == "num" or tok in ("true", "false"):
            self.eat()
            return ("plit", tok)
        if tok == "-" and self.kind(1) == "num":
            self.eat(); n = self.eat()
            return ("plit", "-" + n)
        if self.kind() == "id":
            segs = [self.eat()]
            while self.peek() == "::":
                self.eat()
                segs.append(self.eat())
            if self.peek() == "(":
                self.eat()
                ps = []
                while self.peek() != ")":
                    ps.append(self.pattern())
                    if not self.accept(","):
                        break
                self.eat(")")
                return ("pctor", segs, ps)
            if self.peek() == "{":
                raise Untranslatable("struct pattern")
            if len(segs) == 1 and segs[0][0].islower():
                return ("pvar", segs[0])
            return ("pctor", segs, [])
        raise Untranslatable("pattern starts with %r" % tok)

    # -- blocks / statements
    def block(self):
        self.eat("{")
        stmts = []
        tail = None
        while self.peek() != "}":
            if self.accept(";"):
                continue
            if self.peek() == "let":
                self.eat()
                pat = self.pattern()
                ty = None
                if self.accept(":"):
                    ty = self.skip_type()
                init = None
                if self.accept("="):
                    init = self.expr()
                self.eat(";")
                stmts.append(("let", pat, ty, init))
                continue
            if self.peek() in ("use",):
                while self.eat() != ";":
                    pass
                continue
            e = self.expr(stmt=True)
            if self.accept(";"):
                stmts.append(("expr", e))
            elif self.peek() == "}":
                tail = e
            elif e[0] in ("if", "iflet", "match", "for", "loop", "while", "block"):
                stmts.append(("expr", e))
            else:
                raise Untranslatable("parse: expected ; after expression, found %r" % self.peek())
        self.eat("}")
        return ("block", stmts, tail)

    # -- expressions
    def expr(self, nostruct=False, stmt=False):
        e = self.range_expr(nostruct, stmt)
        if self.peek() in ASSIGN_OPS:
            op = self.eat()
            r = self.expr(nostruct)
            return ("assign", op, e, r)
        return e

    def range_expr(self, nostruct, stmt=False):
        e = self.binary(0, nostruct, stmt)
        if self.peek() == ".." or self.peek() == "..=":
            op = self.eat()
            if self.peek() in (")", "]", ";", ",", "{", None):
                raise Untranslatable("open range")
            r = self.binary(0, nostruct)
            return ("range", op, e, r)
        return e

    def binary(self, lvl, nostruct, stmt=False):
        if lvl == len(BINOPS):
            return self.cast(nostruct, stmt)
        e = self.binary(lvl + 1, nostruct, stmt)
        # a block-like expression in statement position ends the statement
        if stmt and e[0] in ("if", "iflet", "match", "for", "loop", "while", "block"):
            return e
        while self.peek() in BINOPS[lvl]:
            op = self.eat()
            r = self.binary(lvl + 1, nostruct)
            e = ("binary", op, e, r)
        return e

    def cast(self, nostruct, stmt=False):
        e = self.unary(nostruct, stmt)
        while self.peek() == "as":
            self.eat()
            ty = self.eat()
            e = ("cast", e, ty)
        return e

    def unary(self, nostruct, stmt=False):
        tok = self.peek()
        if tok in ("!", "-", "*"):
            self.eat()
            return ("unary", tok, self.unary(nostruct))
        if tok in ("&", "&&"):
            self.eat()
            self.accept("mut")
            inner = self.unary(nostruct)
            return ("ref", inner)
        return self.postfix(nostruct, stmt)

    def args(self):
        self.eat("(")
        xs = []
        while self.peek() != ")":
            xs.append(self.expr())
            if not self.accept(","):
                break
        self.eat(")")
        return xs

    def postfix(self, nostruct, stmt=False):
        e = self.primary(nostruct)
        if stmt and e[0] in ("if", "iflet", "match", "for", "loop", "while", "block"):
            return e
        while True:
            tok = self.peek()
            if tok == ".":
                self.eat()
                if self.kind() == "num":
                    e = ("tfield", e, self.eat())
                    continue
                name = self.eat()
                if self.peek() == "::":
                    self.eat()
                    self.eat("<")
                    depth = 1
                    while depth:
                        t = self.eat()
                        if t == "<": depth += 1
                        elif t == ">": depth -= 1
                        elif t == ">>": depth -= 2
                if self.peek() == "(":
                    e = ("mcall", e, name, self.args())
                else:
                    e = ("field", e, name)
            elif tok == "[":
                self.eat()
                idx = self.expr()
                self.eat("]")
                e = ("index", e, idx)
            elif tok == "(":
                e = ("call", e, self.args())
            elif tok == "?":
                raise Untranslatable("? operator")
            else:
                return e

    def primary(self, nostruct):
        tok, kind = self.peek(), self.kind()
        if kind == "num":
            self.eat()
            return ("num", re.sub(r"(?:[iu](?:8|16|32|64|128|size)|f32|f64)$", "", tok).replace("_", ""))
        if kind == "str":
            self.eat()
            return ("str", tok)
        if kind == "life":
            label = self.eat()
            self.eat(":")
            e = self.primary(nostruct)
            if e[0] not in ("for", "loop", "while"):
                raise Untranslatable("label on non-loop")
            return (e[0], label) + e[2:]
        if tok == "(":
            self.eat()
            xs = []
            trailing = False
            while self.peek() != ")":
                xs.append(self.expr())
                trailing = False
                if not self.accept(","):
                    break
                trailing = True
            self.eat(")")
            if len(xs) == 1 and not trailing:
                return ("paren", xs[0])
            return ("tuple", xs)
        if tok == "{":
            return self.block()
        if tok == "[":
            self.eat()
            xs = []
            while self.peek() != "]":
                xs.append(self.expr())
                if self.accept(";"):
                    n = self.expr()
                    self.eat("]")
                    return ("repeat", xs[0], n)
                if not self.accept(","):
                    break
            self.eat("]")
            return ("array", xs)
        if tok == "if":
            self.eat()
            if self.peek() == "let":
                self.eat()
                pat = self.pattern()
                self.eat("=")
                scrut = self.expr(nostruct=True)
                then = self.block()
                els = None
                if self.accept("else"):
                    els = self.primary(nostruct) if self.peek() == "if" else self.block()
                return ("iflet", pat, scrut, then, els)
            c = self.expr(nostruct=True)
            then = self.block()
            els = None
            if self.accept("else"):
                els = self.primary(nostruct) if self.peek() == "if" else self.block()
            return ("if", c, then, els)
        if tok == "match":
            self.eat()
            scrut = self.expr(nostruct=True)
            self.eat("{")
            arms = []
            while self.peek() != "}":
                pat = self.pattern()
                guard = None
                if self.accept("if"):
                    guard = self.expr(nostruct=True)
                self.eat("=>")
                body = self.expr(stmt=True)
                if not self.accept(","):
                    if self.peek() != "}" and body[0] != "block" and body[0] not in ("if", "iflet", "match"):
                        raise Untranslatable("parse: match arm not terminated")
                arms.append((pat, guard, body))
            self.eat("}")
            return ("match", scrut, arms)
        if tok == "for":
            self.eat()
            pat = self.pattern()
            self.eat("in")
            it = self.expr(nostruct=True)
            body = self.block()
            return ("for", None, pat, it, body)
        if tok == "loop":
            self.eat()
            return ("loop", None, self.block())
        if tok == "while":
            raise Untranslatable("while loop")
        if tok in ("|", "||", "move"):
            if tok == "move":
                self.eat()
                tok = self.peek()
            params = []
            if tok == "||":
                self.eat()
            else:
                self.eat("|")
                while self.peek() != "|":
                    p = self.pattern1()
                    if self.accept(":"):
                        self.skip_type()
                    params.append(p)
                    if not self.accept(","):
                        break
                self.eat("|")
            body = self.expr()
            return ("closure", params, body)
        if tok == "return":
            self.eat()
            if self.peek() in (";", "}", ","):
                return ("return", None)
            return ("return", self.expr())
        if tok in ("break", "continue"):
            self.eat()
            label = None
            if self.kind() == "life":
                label = self.eat()
            if tok == "break" and self.peek() not in (";", "}", ","):
                raise Untranslatable("break with value")
            return (tok, label)
        if kind == "id":
            segs = [self.eat()]
            while self.peek() == "::":
                self.eat()
                if self.peek() == "<":
                    depth = 0
                    while True:
                        t = self.eat()
                        if t == "<": depth += 1
                        elif t == ">": depth -= 1
                        elif t == ">>": depth -= 2
                        if depth == 0:
                            break
                    continue
                segs.append(self.eat())
            if self.peek() == "!" and self.peek(1) in ("(", "["):
                self.eat()
                close = ")" if self.peek() == "(" else "]"
                self.eat()
                xs = []
                rep = None
                while self.peek() != close:
                    xs.append(self.expr())
                    if self.accept(";"):
                        rep = self.expr()
                        break
                    if not self.accept(","):
                        break
                self.eat(close)
                return ("macro", segs[-1], xs, rep)
            if self.peek() == "{" and not nostruct and segs[-1][0].isupper():
                self.eat()
                fields = []
                while self.peek() != "}":
                    f = self.eat()
                    if self.accept(":"):
                        fields.append((f, self.expr()))
                    else:
                        fields.append((f, ("path", [f])))
                    if not self.accept(","):
                        break
                self.eat("}")
                return ("struct", segs, fields)
            return ("path", segs)
        raise Untranslatable("parse: expression starts with %r" % tok)


# =============================================================================================
# locating functions
# =============================================================================================
def strip_comments(src):
    return re.sub(r"//[^\n]*", "", src)


def matching(s, start, open_="{", close="}"):
    depth = 0
    for i in range(start, len(s)):
        if s[i] == open_:
            depth += 1
        elif s[i] == close:
            depth -= 1
            if depth == 0:
                return i
    raise Untranslatable("unbalanced braces")


def impl_blocks(src, header_re):
    """bodies of all `impl … {` blocks whose header matches"""
    out = []
    for m in re.finditer(r"^impl\b[^{;]*\{", src, re.M):
        if re.search(header_re, m.group(0)):
            b0 = m.end() - 1
            out.append(src[b0 + 1:matching(src, b0)])
    return out


def find_fn(src, impl_re, name):
    """(params text, return type text, parsed body block) of `fn name` in an impl block"""
    src = strip_comments(src)
    cands = []
    for body in impl_blocks(src, impl_re):
        for m in re.finditer(r"\bfn\s+%s\s*(<[^>]*(?:<[^>]*>[^>]*)*>)?\s*\(" % re.escape(name), body):
            p0 = m.end() - 1
            p1 = matching(body, p0, "(", ")")
            b0 = body.index("{", p1)
            b1 = matching(body, b0)
            cands.append((body[p0 + 1:p1], body[p1 + 1:b0].strip(), body[b0:b1 + 1]))
    if len(cands) != 1:
        raise Untranslatable("expected exactly one `fn %s` in `impl %s`, found %d" % (name, impl_re, len(cands)))
    params, ret, text = cands[0]
    p = Parser(tokenize(text))
    blk = p.block()
    if p.peek() is not None:
        raise Untranslatable("trailing tokens after body")
    plist = []
    for part in split_top(params):
        part = part.strip()
        if not part:
            continue
        if re.match(r"^&?\s*('[a-z_]+\s+)?(mut\s+)?self$", part):
            plist.append(("self", part))
        else:
            mm = re.match(r"^(mut\s+)?([a-z_][a-z0-9_]*)\s*:\s*(.*)$", part, re.S)
            if not mm:
                raise Untranslatable("parameter " + part)
            plist.append((mm.group(2), re.sub(r"\s+", "", mm.group(3))))
    return plist, re.sub(r"\s+", " ", ret), blk


def split_top(s):
    out, depth, cur = [], 0, ""
    for ch in s:
        if ch in "([<":
            depth += 1
        elif ch in ")]>":
            depth -= 1
        if ch == "," and depth == 0:
            out.append(cur)
            cur = ""
        else:
            cur += ch
    out.append(cur)
    return out


# =============================================================================================
# AST utilities
# =============================================================================================
LEAN_KW = {"at", "from", "end", "open", "in", "then", "fun", "show", "have", "by", "do", "let", "if", "else",
           "match", "with", "where", "def", "theorem", "instance", "class", "structure", "namespace", "section",
           "variable", "universe", "export", "import", "local", "private", "protected", "deriving", "mutual",
           "prefix", "infix", "notation", "macro", "syntax", "calc", "Type", "Prop", "Sort", "this", "nomatch",
           "obtain", "using", "suffices", "return", "for", "unless", "try", "catch", "finally", "mut", "break", "continue"}


def lname(x):
    return x + "_" if x in LEAN_KW else x


def walk(node):
    """all tuple sub-nodes (pre-order)"""
    if isinstance(node, tuple):
        yield node
        for c in node:
            for x in walk(c):
                yield x
    elif isinstance(node, list):
        for c in node:
            for x in walk(c):
                yield x


def strip(e):
    """remove reference / deref / paren / clone-like wrappers (identity under the mapping table)"""
    while True:
        if e[0] in ("ref", "paren"):
            e = e[1]
        elif e[0] == "unary" and e[1] == "*":
            e = e[2]
        elif e[0] == "mcall" and e[2] in ("clone", "iter", "into_iter", "copied", "cloned", "as_slice", "as_ref",
                                          "to_vec", "value", "value_usize", "collect", "iter_mut", "by_ref") and not e[3]:
            e = e[1]
        elif e[0] == "cast" and e[2] in ("usize", "u64", "u128", "u32"):
            e = e[1]
        elif e[0] == "call" and e[1][0] == "path" and e[1][1] in (["VarLabel", "new"], ["VarLabel", "new_usize"], ["VarLabel"]) and len(e[2]) == 1:
            e = e[2][0]
        else:
            return e


def path_name(e):
    """`x` -> 'x'; `self.f` -> 'self.f'; else None"""
    e = strip(e)
    if e[0] == "path" and len(e[1]) == 1:
        return e[1][0]
    if e[0] == "field" and strip(e[1]) == ("path", ["self"]):
        return "self." + e[2]
    return None


def pat_vars(p):
    if p[0] == "pvar":
        return [p[1]]
    if p[0] in ("ptuple", "por"):
        return [v for q in p[1] for v in pat_vars(q)]
    if p[0] == "pctor":
        return [v for q in p[2] for v in pat_vars(q)]
    return []


MUTATING = {"push", "pop", "insert", "remove", "set", "unset", "sort", "sort_by_key", "dedup", "dedup_by_key",
            "swap_remove", "union_with", "set_label", "set_polarity", "extend", "clear", "truncate", "retain",
            "clone_from", "next", "nth"}


def assigned(node):
    """names (`x` / `self.f`) assigned or mutated through a method statement inside `node`"""
    out = []
    for n in walk(node):
        tgt = None
        if n[0] == "assign":
            t = strip(n[2])
            while t[0] == "index":
                t = strip(t[1])
            tgt = path_name(t)
        elif n[0] == "mcall" and n[2] == "iter_mut":
            tgt = path_name(n[1])
        elif n[0] == "mcall" and n[2] in MUTATING:
            t = n[1]
            # x.last_mut().unwrap().remove(..) / x[i].push(..) mutate x
            while True:
                t = strip(t)
                if t[0] == "index":
                    t = t[1]
                elif t[0] == "mcall" and t[2] in ("last_mut", "unwrap", "last"):
                    t = t[1]
                else:
                    break
            tgt = path_name(t)
            if n[2] in ("next", "nth") and n[1][0] == "mcall" and n[1][2] == "clone":
                tgt = None
        if n[0] == "mcall" and n[2] == "decide" and path_name(n[1]) in ("cur", "self.up", "self") and len(n[3]) == 2:
            tgt = "wl"
        if tgt in ("self.watch_list_pos", "self.watch_list_neg", "watch_list_pos", "watch_list_neg"):
            tgt = "wl"
        if tgt and tgt not in out:
            out.append(tgt)
    return out


def declared(block):
    out = []
    for n in walk(block):
        if n[0] == "let":
            out += pat_vars(n[1])
        elif n[0] == "for":
            out += pat_vars(n[2])
        elif n[0] == "closure":
            for p in n[1]:
                out += pat_vars(p)
        elif n[0] in ("iflet",):
            out += pat_vars(n[1])
        elif n[0] == "match":
            for (p, g, b) in n[2]:
                out += pat_vars(p)
    return out


# =============================================================================================
# compiler: AST -> Lean term
# =============================================================================================
def tup(names):
    names = [lname(n.replace("self.", "self_")) for n in names]
    if not names:
        return "()"
    return names[0] if len(names) == 1 else "(" + ", ".join(names) + ")"


def par(s):
    s = s.strip()
    if re.match(r"^[A-Za-z0-9_.!?']+$", s) or (s[0] in "([⟨" and matching_paren(s)):
        return s
    return "(" + s + ")"


def matching_paren(s):
    pairs = {"(": ")", "[": "]", "⟨": "⟩"}
    close = pairs[s[0]]
    depth = 0
    for i, ch in enumerate(s):
        if ch == s[0]:
            depth += 1
        elif ch == close:
            depth -= 1
            if depth == 0:
                return i == len(s) - 1
    return False


class Fn:
    def __init__(self, spec, params, body, extra=None):
        self.spec = spec
        self.flavor = spec["flavor"]
        self.panic = spec.get("panic", False)
        self.params = params
        self.body = body
        self.loops = []
        self.kinds = dict(spec.get("kinds", {}))
        self.extra = extra or {}
        self.selfmut = [a[5:] for a in assigned(body) if a.startswith("self.")]
        self.consumed = set()
        self.prelude = []
        self.subst = {}
        self.aliases = {}
        self.used_top = False
        self.stack_mutated = False
        for (n, ty) in params:
            if n == "self":
                continue
            if ty == "VarLabel":
                self.kinds[n] = "label"
            elif "PartialModel" in ty:
                self.kinds[n] = "pm"
            elif "VarSet" in ty:
                self.kinds[n] = "varset"

    # ------------------------------------------------------------------ names
    def var(self, name):
        """Lean name of the rust local / self field"""
        if name in self.aliases:
            return self.aliases[name]
        if name in self.consumed:
            raise Untranslatable("iterator `%s` is used after it was advanced" % name)
        if name.startswith("self."):
            f = name[5:]
            if f in self.selfmut:
                return "self_" + f
            fm = self.spec.get("fields", {})
            if f not in fm:
                raise Untranslatable("field self.%s has no counterpart in the model" % f)
            return fm[f].replace("$self", self.spec.get("self", "self"))
        return lname(name)

    # ------------------------------------------------------------------ jumps
    def is_panic_op(self, n):
        if not self.panic:
            return False
        if n[0] == "macro" and n[1] == "assert":
            return True
        if n[0] == "index" and (path_name(n[1]) in self.spec.get("strict", ()) or self.kind_of(n[1]) == "strictlist"):
            return True
        if n[0] == "index" and self.stack_from_end(n) is not None:
            return True
        if n[0] == "mcall" and n[2] == "unwrap" and strip(n[1])[0] == "mcall" and strip(n[1])[2] in ("last", "last_mut"):
            return True
        if n[0] == "mcall" and n[2] in self.spec.get("panic_calls", ()):
            return True
        if n[0] == "mcall" and n[2] == "top_state" and self.spec.get("top_state") == "panic":
            return True
        return False

    def escapes(self, node, label):
        """escapes of a loop body: subset of {'break','continue','ret',('lbl',kind,L)}"""
        out = set()

        def go(n, depth, labels):
            if isinstance(n, list):
                for c in n:
                    go(c, depth, labels)
                return
            if not isinstance(n, tuple):
                return
            if n[0] in ("break", "continue"):
                if n[1] is None:
                    if depth == 0:
                        out.add(n[0])
                elif n[1] == label:
                    out.add(n[0])
                elif n[1] not in labels:
                    out.add(("lbl", n[0], n[1]))
                return
            if n[0] == "return":
                out.add("ret")
            if self.is_panic_op(n):
                out.add("ret")
            if n[0] == "closure":
                return
            if n[0] in ("for", "loop"):
                for c in n[2:]:
                    go(c, depth + 1, labels + ((n[1],) if n[1] else ()))
                return
            for c in n:
                go(c, depth, labels)

        go(node, 0, ())
        return out

    def has_jump(self, node):
        for n in walk(node):
            if n[0] in ("break", "continue", "return") or self.is_panic_op(n):
                return True
        return False

    def diverges(self, node):
        """the block / expression always ends in a jump"""
        if node is None:
            return False
        if node[0] in ("break", "continue", "return"):
            return True
        if node[0] == "block":
            if node[2] is not None:
                return self.diverges(node[2])
            return bool(node[1]) and node[1][-1][0] == "expr" and self.diverges(node[1][-1][1])
        if node[0] == "if":
            return node[3] is not None and self.diverges(node[2]) and self.diverges(node[3])
        if node[0] == "match":
            return all(self.diverges(b) for (_, _, b) in node[2])
        return False

    # ------------------------------------------------------------------ function results
    def fn_result(self, val):
        """value the Lean function returns when the Rust function returns `val` (Lean text or None)"""
        r = self.spec["result"](self, val)
        return (self.spec.get("panic_wrap", "some (%s)") % r) if self.panic else r

    def final_self(self):
        s = self.spec.get("self", "self")
        if not self.selfmut:
            return s
        fm = self.spec.get("fields", {})
        for f in self.selfmut:
            if f not in fm:
                raise Untranslatable("mutated field self.%s has no counterpart in the model" % f)
        return "{ %s with %s }" % (s, ", ".join("%s := self_%s" % (fm[f].split(".")[-1], f) for f in self.selfmut))

    def panic_val(self):
        return "none"

    def do_return(self, val):
        """`return val` at the current position"""
        r = self.fn_result(val)
        if self.loops and self.loops[-1]["mode"] != "fuel":
            return ".ret (%s)" % r
        return r

    def do_panic(self):
        pv = self.spec.get("panic_val", "none")
        if self.loops and self.loops[-1]["mode"] != "fuel":
            return ".ret %s" % par(pv)
        return pv

    def fuel_out(self):
        v = self.spec.get("fuel_out", self.spec.get("panic_val", "none"))
        if self.loops and self.loops[-1]["mode"] != "fuel":
            return ".ret %s" % par(v)
        return v

    def do_jump(self, kind, label):
        """`break` / `continue` (possibly labelled) at the current position"""
        if not self.loops:
            raise Untranslatable("%s outside of a loop" % kind)
        inner = self.loops[-1]
        if label is None or label == inner["label"]:
            if inner["mode"] == "fuel":
                return inner[kind](self)
            st = tup(inner["W"])
            if inner["mode"] == "fold":
                if kind == "break":
                    raise Untranslatable("internal: break in fold loop")
                return st
            return (".go " if kind == "continue" else ".brk ") + par(st)
        if inner["mode"] != "step":
            raise Untranslatable("internal: labelled jump out of a fold loop")
        return ".ret ()"

    # ------------------------------------------------------------------ statements
    def dead_vars(self):
        """locals that only flow into struct fields the model does not have (spec `dropped_fields`)"""
        if not hasattr(self, "_dead"):
            dead = set()
            for n in walk(self.body):
                if n[0] == "struct":
                    for (f, v) in n[2]:
                        if f in self.spec.get("dropped_fields", ()):
                            pn = path_name(v)
                            if pn is None:
                                raise Untranslatable("dropped field %s is not initialised from a local" % f)
                            dead.add(pn)
            self._dead = dead
        return self._dead

    def is_dead_stmt(self, s):
        dead = self.dead_vars()
        if not dead:
            return False
        if s[0] == "let":
            return s[1][0] == "pvar" and s[1][1] in dead
        a = assigned(s[1])
        return bool(a) and set(a) <= dead and s[1][0] in ("for", "mcall", "assign", "if")

    def seq(self, stmts, tail, k):
        if stmts and self.is_dead_stmt(stmts[0]):
            return self.seq(stmts[1:], tail, k)
        if not stmts:
            if tail is None:
                return k(None)
            return self.tail(tail, k)
        s, rest_stmts = stmts[0], stmts[1:]
        rest = lambda: self.seq(rest_stmts, tail, k)
        if s[0] == "let":
            return self.let(s, rest)
        e = s[1]
        return self.stmt(e, rest)

    def tail(self, e, k):
        """expression in tail (value) position of a block"""
        if e[0] == "paren":
            return self.tail(e[1], k)
        if e[0] == "return":
            return self.do_return(None if e[1] is None else self.ex(e[1]))
        if e[0] in ("break", "continue"):
            return self.do_jump(e[0], e[1])
        if e[0] == "block":
            return self.seq(e[1], e[2], k)
        if e[0] == "if":
            def cont(c):
                c0 = set(self.consumed)
                els = self.tail(e[3], k) if e[3] is not None else k(None)
                ce = set(self.consumed)
                self.consumed = set(c0)
                thn = self.tail(e[2], k)
                self.consumed |= ce
                return "if %s then (\n%s\n) else (\n%s)" % (c, thn, els)
            return self.hoist(e[1], cont)
        if e[0] == "match" and (self.has_jump(e) or assigned(e)):
            return self.match(e, lambda b: self.tail(b, k))
        if e[0] in ("for", "loop", "assign") or (e[0] == "mcall" and e[2] in MUTATING and not (e[1][0] == "mcall" and e[1][2] == "clone")) \
                or (e[0] == "macro" and e[1] in ("assert", "debug_assert")) or (e[0] in ("if", "iflet", "match") and self.is_stmt_like(e)):
            return self.stmt(e, lambda: k(None))
        if e[0] == "tuple" and not e[1]:
            return k(None)
        # value; panicking calls are hoisted
        return self.hoist(e, lambda v: k(v))

    def is_stmt_like(self, e):
        """an if / match whose branches are statements (no value)"""
        if e[0] == "if":
            return e[3] is None or (e[2][2] is None and not self.diverges(e[2]))
        if e[0] == "iflet":
            return True
        if e[0] == "match":
            return all((b[0] == "tuple" and not b[1]) or (b[0] == "block" and b[2] is None) or b[0] in ("assign",) or
                       (b[0] == "mcall" and b[2] in MUTATING) for (_, _, b) in e[2])
        return False

    def hoist(self, e, k):
        """evaluate `e` (which may contain ONE panicking operation at its root / receiver) and pass the Lean
        value to k"""
        if self.panic:
            s = strip(e)
            if s[0] == "index" and (path_name(s[1]) in self.spec.get("strict", ()) or self.kind_of(s[1]) == "strictlist"):
                base, idx = self.ex(s[1]), self.ex(s[2])
                v = self.fresh("it")
                return "(match %s[%s]? with\n| none => %s\n| some %s => (\n%s))" % (par(base), idx, self.do_panic(), v, k(v))
            if s[0] == "mcall" and s[2] in self.spec.get("panic_calls", ()):
                v = self.fresh("r")
                return "(match %s with\n| none => %s\n| some %s => (\n%s))" % (self.ex(s, allow_panic_call=True), self.do_panic(), v, k(v))
            if s[0] == "unary" and s[1] == "!" :
                return self.hoist(s[2], lambda v: k("!" + par(v)))
            if s[0] == "index" and path_name(s[1]) in self.spec.get("stacks", ()):
                base, kk = self.stack_from_end(s)
                el = self.fresh("el")
                return "(match %s[%d]? with\n| none => %s\n| some %s => (\n%s))" % (par(self.var(base)), kk - 1, self.do_panic(), el, k(el))
            if s[0] == "mcall" and s[2] == "update_hash_and_sat_set" and path_name(s[1]) and self.kinds.get(path_name(s[1])) == "solver" \
                    and len(s[3]) == 1:
                x = self.var(path_name(s[1]))
                top = self.fresh("top")
                return ("(match %s.stack with\n| [] => %s\n| %s :: _ => (\n%s))"
                        % (x, self.do_panic(), top, k("updateHashAndSatSet %s.clauses %s.numVars %s %s" % (x, x, top, par(self.ex(s[3][0]))))))
            if s[0] == "mcall" and s[2] == "unwrap" and strip(s[1])[0] == "mcall" and strip(s[1])[2] == "last" \
                    and path_name(strip(s[1])[1]) in self.spec.get("stacks", ()):
                st = self.var(path_name(strip(s[1])[1]))
                top = self.fresh("top")
                return "(match %s with\n| [] => %s\n| %s :: _ => (\n%s))" % (st, self.do_panic(), top, k(top))
            if s[0] == "field" and strip(s[1])[0] == "index" and self.stack_from_end(strip(s[1])) is not None:
                base, kk = self.stack_from_end(strip(s[1]))
                el = self.fresh("el")
                fm = self.spec.get("subfields", {})
                return "(match %s[%d]? with\n| none => %s\n| some %s => (\n%s))" % (par(self.var(base)), kk - 1, self.do_panic(), el, k("%s.%s" % (el, fm[s[2]])))
        if self.panic:
            for n in walk(e):
                if n[0] == "field" and strip(n[1])[0] == "index" and id(n) not in self.subst:
                    try:
                        sfe = self.stack_from_end(strip(n[1]))
                    except Untranslatable:
                        sfe = None
                    if sfe is not None:
                        base, kk = sfe
                        el = self.fresh("el")
                        fm = self.spec.get("subfields", {})
                        if n[2] not in fm:
                            raise Untranslatable("field ." + n[2])
                        self.subst[id(n)] = "%s.%s" % (el, fm[n[2]])
                        return "(match %s[%d]? with\n| none => %s\n| some %s => (\n%s))" % (
                            par(self.var(base)), kk - 1, self.do_panic(), el, self.hoist(e, k))
        v = self.ex(e)
        pre = "".join(self.prelude)
        self.prelude = []
        return pre + k(v)

    _fresh = 0

    def fresh(self, base):
        Fn._fresh += 1
        return "%s_%d" % (base, Fn._fresh)

    def bind_pat(self, p):
        """Lean pattern text of a Rust pattern"""
        if p[0] == "pwild":
            return "_"
        if p[0] == "pvar":
            return lname(p[1])
        if p[0] == "plit":
            return p[1]
        if p[0] == "ptuple":
            return "(" + ", ".join(self.bind_pat(q) for q in p[1]) + ")"
        if p[0] == "pctor":
            name = p[1][-1]
            table = {"Some": "some", "None": "none"}
            table.update(self.spec.get("ctors", {}))
            if name not in table:
                raise Untranslatable("pattern constructor " + "::".join(p[1]))
            return ("(%s %s)" % (table[name], " ".join(self.bind_pat(q) for q in p[2]))) if p[2] else table[name]
        raise Untranslatable("pattern " + p[0])

    def let(self, s, rest):
        _, pat, ty, init = s
        if init is None:
            # `let x;` assigned later: treat as declared
            return rest()
        names = pat_vars(pat)
        if self.spec.get("wl_locals") and pat[0] == "pvar":
            if pat[1] in ("watch_list_pos", "watch_list_neg") and strip(init) == ("call", ("path", ["Vec", "new"]), []):
                return "let wl := WL.empty;\n" + rest()
            si0 = strip(init)
            if si0[0] == "struct" and si0[1][-1] == "UnitPropagate":
                got = dict((f, path_name(v)) for f, v in si0[2])
                if got != {"watch_list_pos": "watch_list_pos", "watch_list_neg": "watch_list_neg", "cnf": "cnf"}:
                    raise Untranslatable("fields of UnitPropagate")
                self.aliases[pat[1]] = "wl"
                return rest()
        # kinds
        if pat[0] == "pvar":
            k = self.kind_of(init)
            if ty and "BitSet" in ty:
                k = "bitfn"
            if k:
                self.kinds[pat[1]] = k
        if pat[0] == "ptuple" and strip(init)[0] == "mcall" and strip(init)[2] in self.spec.get("call_kinds", {}):
            for q, kk in zip(pat[1], self.spec["call_kinds"][strip(init)[2]]):
                if q[0] == "pvar" and kk:
                    self.kinds[q[1]] = kk
        # iterator advance: let x = it.next().unwrap();
        si = init
        if si[0] == "mcall" and si[2] == "unwrap" and si[1][0] == "mcall" and si[1][2] in ("next", "nth") and path_name(si[1][1]) \
                and self.kinds.get(path_name(si[1][1])) == "iter" and si[1][1][0] == "path":
            it = lname(path_name(si[1][1]))
            if si[1][2] == "next":
                val, adv = "%s.headD default" % it, "%s.tail" % it
            else:
                n = self.ex(si[1][3][0])
                val, adv = "%s.getD %s default" % (it, n), "%s.drop (%s + 1)" % (it, n)
            return "let %s := %s;\nlet %s := %s;\n%s" % (self.bind_pat(pat), val, it, adv, rest())
        if init[0] == "if" and init[3] is not None and init[3][0] == "block" and pat[0] == "pvar":
            brs = [init[2], init[3]]
            if all(b[0] == "block" and not b[1] and b[2] is not None and strip(b[2])[0] == "mcall" and strip(b[2])[2] == "swap_remove"
                   and strip(strip(b[2])[1])[0] == "index" and self.watch_list(strip(strip(b[2])[1])) is not None for b in brs):
                c = self.ex(init[1])
                vals, upds = [], []
                for b in brs:
                    mc = strip(b[2])
                    pol, idx = self.watch_list(strip(mc[1]))
                    k_ = par(self.ex(mc[3][0]))
                    cur = "wl.get %s %s" % (pol, par(idx))
                    vals.append("(%s).getD %s 0" % (cur, k_))
                    upds.append("wl.upd %s %s (swapRemove (%s) %s)" % (pol, par(idx), cur, k_))
                return ("let %s := if %s then %s else %s;\nlet wl := if %s then %s else %s;\n%s"
                        % (self.bind_pat(pat), c, vals[0], vals[1], c, upds[0], upds[1], rest()))
        if init[0] in ("if", "match", "iflet", "block") and self.has_jump(init):
            raise Untranslatable("`let` whose initialiser contains a jump / panic")
        return self.hoist(init, lambda v: self.let_emit(pat, v, rest))

    def let_emit(self, pat, v, rest):
        if pat[0] == "pvar" or pat[0] == "pwild":
            return "let %s := %s;\n%s" % (self.bind_pat(pat), v, rest())
        return "(match %s with\n| %s => (\n%s))" % (v, self.bind_pat(pat), rest())

    def stmt(self, e, rest):
        if e[0] == "paren":
            return self.stmt(e[1], rest)
        if e[0] == "tuple" and not e[1]:
            return rest()
        if e[0] == "return":
            return self.do_return(None if e[1] is None else self.ex(e[1]))
        if e[0] in ("break", "continue"):
            return self.do_jump(e[0], e[1])
        if e[0] == "block":
            return self.seq(e[1], e[2], lambda v: rest())
        if e[0] == "macro":
            if e[1] == "debug_assert":
                return rest()
            if e[1] == "assert":
                if not self.panic:
                    raise Untranslatable("assert! in a function whose model has no panic")
                return "if !%s then %s else\n%s" % (par(self.ex(e[2][0])), self.do_panic(), rest())
            raise Untranslatable("macro %s! as a statement" % e[1])
        if e[0] == "assign":
            return self.assign(e, rest)
        if e[0] == "call" and e[1] == ("path", ["drop"]) and len(e[2]) == 1:
            return self.stmt(e[2][0], rest)
        if e[0] == "mcall":
            return self.mut_call(e, rest)
        if e[0] == "if":
            return self.if_stmt(e, rest)
        if e[0] == "iflet":
            arms = [(e[1], None, e[3]), (("pwild",), None, e[4] if e[4] is not None else ("block", [], None))]
            return self.match_stmt(("match", e[2], arms), rest)
        if e[0] == "match":
            return self.match_stmt(e, rest)
        if e[0] == "for":
            return self.for_loop(e, rest)
        if e[0] == "loop":
            return self.loop(e, rest)
        raise Untranslatable("statement of kind " + e[0])

    # -- assignment
    def assign(self, e, rest):
        _, op, lhs, rhs = e
        l = strip(lhs)
        if l[0] == "index":
            base = path_name(l[1])
            if base is None or op != "=":
                raise Untranslatable("assignment through a nested index")
            b = self.var(base)
            i = self.ex(l[2])
            v = self.ex(rhs)
            new = "%s.set %s %s" % (par(b), par(i), par(v))
            if self.panic and base in self.spec.get("strict", ()):
                return "if %s < %s.length then (\nlet %s := %s;\n%s\n) else (%s)" % (i, par(b), b, new, rest(), self.do_panic())
            return "let %s := %s;\n%s" % (b, new, rest())
        name = path_name(l)
        if name is None:
            raise Untranslatable("assignment target")
        x = self.var(name)
        r = self.ex(rhs)
        if op != "=":
            r = self.binop(op[:-1], x, r, lhs, rhs)
        return "let %s := %s;\n%s" % (x, r, rest())

    # -- mutating method statements
    def mut_call(self, e, rest):
        _, recv, m, args = e
        r = strip(recv)
        # hasher: self.state.last_mut().unwrap().remove(idx)
        if r[0] == "mcall" and r[2] == "unwrap" and strip(r[1])[0] == "mcall" and strip(r[1])[2] in ("last_mut",):
            stack = path_name(strip(r[1])[1])
            if stack not in self.spec.get("stacks", ()) or not self.panic:
                raise Untranslatable("last_mut().unwrap() on a non-stack")
            st = self.var(stack)
            top, below = self.fresh("top"), self.fresh("below")
            new = self.mutated("hashset", top, m, args)
            return "(match %s with\n| [] => %s\n| %s :: %s => (\nlet %s := %s :: %s;\n%s))" % (st, self.do_panic(), top, below, st, par(new), below, rest())
        # indexed receivers: xs[i].push(v) on watch lists
        if r[0] == "index":
            wl = self.watch_list(r)
            if wl is not None:
                pol, idx = wl
                cur = "wl.get %s %s" % (pol, par(idx))
                new = self.mutated("list", cur, m, args)
                return "let wl := wl.upd %s %s %s;\n%s" % (pol, par(idx), par(new), rest())
            raise Untranslatable("mutation through an index")
        if r[0] == "field" and r[2] == "state_stack" and path_name(r[1]) and self.kinds.get(path_name(r[1])) == "solver" and m == "push":
            x = self.var(path_name(r[1]))
            return "let %s := { %s with stack := %s :: %s.stack };\n%s" % (x, x, par(self.ex(args[0])), x, rest())
        name = path_name(r)
        if name is None:
            raise Untranslatable("mutating call on a complex receiver (.%s)" % m)
        if self.spec.get("wl_locals") and name in ("watch_list_pos", "watch_list_neg"):
            if m == "push" and len(args) == 1 and strip(args[0]) == ("call", ("path", ["Vec", "new"]), []):
                return "let wl := wl;\n" + rest()
            raise Untranslatable("operation on the vector of watch lists")
        kind = self.kinds.get(name) or self.field_kind(name)
        x = self.var(name)
        if name in self.spec.get("stacks", ()):
            self.stack_mutated = True
            if m == "push":
                return "let %s := %s :: %s;\n%s" % (x, par(self.ex(args[0])), x, rest())
            if m == "pop" and not args:
                return "let %s := %s.tail;\n%s" % (x, x, rest())
            raise Untranslatable("stack operation " + m)
        new = self.mutated(kind or "list", x, m, args)
        return "let %s := %s;\n%s" % (x, new, rest())

    def mutated(self, kind, x, m, args):
        a = [self.ex(y) for y in args if y[0] != "closure"]
        if kind == "word":
            bf = self.extra.get("bitfield", {})
            if m in bf:
                return "bfSet %s %s %d %d" % (x, par(a[0]), bf[m][0], bf[m][1])
            raise Untranslatable("setter " + m)
        if kind == "bitset":  # BitSet inside impl VarSet: ascending list
            if m == "insert":
                return "VarSet.insertL %s %s" % (par(a[0]), x)
            if m == "remove":
                return "%s.filter (fun x => x != %s)" % (par(x), par(a[0]))
            if m == "union_with":
                return "%s.foldl (fun acc v => VarSet.insertL v acc) %s" % (par(a[0]), x)
            raise Untranslatable("BitSet::" + m)
        if kind == "varset":
            tbl = {"insert": "insert", "remove": "remove", "union_with": "unionWith"}
            if m in tbl:
                return "%s.%s %s" % (par(x), tbl[m], par(a[0]))
            raise Untranslatable("VarSet::" + m)
        if kind == "hashset":
            if m == "remove":
                return "%s.filter (fun i => i != %s)" % (par(x), par(a[0]))
            raise Untranslatable("HashSet::" + m)
        if kind == "bitfn":
            if m == "insert":
                return "setInsert %s %s" % (par(x), par(a[0]))
            raise Untranslatable("BitSet::" + m)
        if kind == "pm" and self.flavor == "unitprop":
            if m == "set":
                return "PModel.set %s %s %s" % (par(x), par(a[0]), par(a[1]))
            raise Untranslatable("PartialModel::" + m)
        # Vec
        if m == "extend" and len(args) == 1:
            if self.kind_of(args[0]) == "option":
                return "%s ++ %s.toList" % (x, par(a[0]))
            return "%s ++ %s" % (x, par(a[0]))
        if m == "push":
            return "%s ++ [%s]" % (x, a[0])
        if m == "pop" and not args:
            return "%s.dropLast" % par(x)
        if m == "swap_remove":
            return "swapRemove %s %s" % (par(x), par(a[0]))
        if m == "dedup" and not args:
            return "dedupAdj %s" % par(x)
        if m == "sort" and not args:
            if self.flavor == "unitprop":
                return "isort leLit %s" % par(x)
            raise Untranslatable("sort() (derived Ord of Literal) outside unit_prop.rs")
        if m in ("sort_by_key", "dedup_by_key") and len(args) == 1 and args[0][0] == "closure" and len(args[0][1]) == 1:
            p = args[0][1][0]
            key = self.ex(args[0][2])
            if m == "dedup_by_key":
                return "TieAux.dedupByKey (fun %s => %s) %s" % (self.bind_pat(p), key, par(x))
            if p[0] == "pvar" and key == lname(p[1]) + ".var":
                return ("sortByLabel %s" if self.flavor == "cnfutil" else "isort leLabel %s") % par(x)
            return "TieAux.sortByKey (fun %s => %s) %s" % (self.bind_pat(p), key, par(x))
        raise Untranslatable("mutating method .%s on a Vec" % m)

    # -- if / match statements
    def if_stmt(self, e, rest):
        _, c, then, els = e
        if not self.has_jump(e):
            W = self.outer_assigned(e)
            if not W:
                raise Untranslatable("`if` statement without effect")
            t = tup(W)
            a = self.seq(then[1], then[2], lambda v: t)
            if els is None:
                b = t
            elif els[0] == "block":
                b = self.seq(els[1], els[2], lambda v: t)
            else:
                b = self.stmt(els, lambda: t)
            return self.hoist(c, lambda cv: "%s\n%s" % (self.bind_state(W, "if %s then (\n%s\n) else (\n%s)" % (cv, a, b)), rest()))
        # jumps inside: the rest goes into the branches that fall through
        def branch(b):
            if b is None:
                return rest()
            if b[0] == "block":
                return self.seq(b[1], b[2], lambda v: rest())
            return self.stmt(b, rest)
        saved = (set(self.consumed), dict(self.kinds))
        def cont(cv):
            a = branch(then)
            self.consumed, self.kinds = set(saved[0]), dict(saved[1])
            b = branch(els)
            return "if %s then (\n%s\n) else (\n%s)" % (cv, a, b)
        return self.hoist(c, cont)

    def bind_state(self, W, val):
        if len(W) == 1:
            return "let %s := %s;" % (tup(W), val)
        names = [lname(n.replace("self.", "self_")) for n in W]
        st = self.fresh("st")
        lines = ["let %s := %s;" % (st, val)]
        for i, n in enumerate(names):
            proj = ".2" * i + (".1" if i < len(names) - 1 else "")
            lines.append("let %s := %s%s;" % (n, st, proj))
        return "\n".join(lines)

    def outer_assigned(self, node):
        inner = set(declared(node))
        return [a for a in assigned(node) if a not in inner]

    def match_arms(self, e):
        """[(lean pattern, guard text|None, body)], handling `P if g => A, _ => B`"""
        arms = []
        for (p, g, b) in e[2]:
            arms.append((self.bind_pat(p), g, b))
        return arms

    def match(self, e, body_fn, scrut=None):
        sc0 = strip(e[1])
        if self.flavor == "unitprop" and sc0[0] == "mcall" and sc0[2] == "decide" and (path_name(sc0[1]) in ("self.up", "self") or path_name(sc0[1]) in self.aliases) and "up_decide" in self.spec:
            if len(sc0[3]) != 2:
                raise Untranslatable("arity of UnitPropagate::decide")
            call = self.spec["up_decide"] % (par(self.ex(sc0[3][0])), par(self.ex(sc0[3][1])))
            uns, part = None, None
            for (p, g, b) in e[2]:
                if g is not None or p[0] != "pctor":
                    raise Untranslatable("arm of the match on UnitPropagate::decide")
                if p[1][-1] == "UNSAT" and not p[2]:
                    uns = b
                elif p[1][-1] == "PartialSAT" and len(p[2]) == 1 and p[2][0][0] == "pvar":
                    part = (p[2][0][1], b)
                else:
                    raise Untranslatable("arm of the match on UnitPropagate::decide")
            if uns is None or part is None or len(e[2]) != 2:
                raise Untranslatable("arms of the match on UnitPropagate::decide")
            self.kinds[part[0]] = "pm"
            return ("(match %s with\n| none => %s\n| some (wl, none) => (\n%s)\n| some (wl, some %s) => (\n%s))"
                    % (call, self.fuel_out(), body_fn(uns), lname(part[0]), body_fn(part[1])))
        if self.flavor == "unitprop" and sc0[0] == "call" and sc0[1] == ("path", ["UnitPropagate", "new"]) and "up_new" in self.spec:
            if len(sc0[2]) != 1:
                raise Untranslatable("arity of UnitPropagate::new")
            call = self.spec["up_new"] % par(self.ex(sc0[2][0]))
            nn, ss = None, None
            for (p, g, b) in e[2]:
                if g is None and p[0] == "pctor" and p[1] == ["None"]:
                    nn = b
                elif g is None and p[0] == "pctor" and p[1] == ["Some"] and len(p[2]) == 1 and p[2][0][0] == "ptuple" \
                        and len(p[2][0][1]) == 2 and all(q[0] == "pvar" for q in p[2][0][1]):
                    ss = (p[2][0][1][0][1], p[2][0][1][1][1], b)
                else:
                    raise Untranslatable("arm of the match on UnitPropagate::new")
            if nn is None or ss is None or len(e[2]) != 2:
                raise Untranslatable("arms of the match on UnitPropagate::new")
            self.kinds[ss[1]] = "pm"
            return ("(match %s with\n| none => none\n| some (_, none) => (\n%s)\n| some (%s, some %s) => (\n%s))"
                    % (call, body_fn(nn), lname(ss[0]), lname(ss[1]), body_fn(ss[2])))
        arms = self.match_arms(e)
        sc = scrut if scrut is not None else self.ex(e[1])
        out = ["(match %s with" % sc]
        for i, (p, g, b) in enumerate(arms):
            if g is None:
                out.append("| %s => (\n%s)" % (p, body_fn(b)))
            else:
                if i != len(arms) - 2 or arms[-1][0] != "_" or arms[-1][1] is not None:
                    raise Untranslatable("match guard not followed by a single `_` arm")
                out.append("| %s => (\nif %s then (\n%s\n) else (\n%s))" % (p, self.ex(g), body_fn(b), body_fn(arms[-1][2])))
        return "\n".join(out) + ")"

    def match_stmt(self, e, rest):
        special = self.special_match(e, rest)
        if special is not None:
            return special
        if not self.has_jump(e):
            W = self.outer_assigned(e)
            if not W:
                raise Untranslatable("`match` statement without effect")
            t = tup(W)
            body = lambda b: self.seq(b[1], b[2], lambda v: t) if b[0] == "block" else (t if (b[0] == "tuple" and not b[1]) else self.stmt(b, lambda: t))
            return "%s\n%s" % (self.bind_state(W, self.match(e, body)), rest())
        def body(b):
            if b[0] == "block":
                return self.seq(b[1], b[2], lambda v: rest())
            if b[0] == "tuple" and not b[1]:
                return rest()
            return self.stmt(b, rest)
        return self.match(e, body)

    def special_match(self, e, rest):
        return None

    # -- loops
    def iter_list(self, it):
        """Lean list an iterator expression ranges over"""
        return self.ex(it, as_iter=True)

    def for_loop(self, e, rest):
        _, label, pat, it, body = e
        si = strip(it)
        if it[0] == "mcall" and ((it[2] == "take" and it[1][0] == "mcall" and it[1][2] == "iter_mut") or it[2] == "iter_mut") \
                and pat[0] == "pvar" and len(body[1]) == 1 and body[2] is None and body[1][0][0] == "expr" \
                and body[1][0][1][0] == "assign" and body[1][0][1][1] == "=" and strip(body[1][0][1][2]) == ("path", [pat[1]]):
            tgt = it[1][1] if it[2] == "take" else it[1]
            name = path_name(tgt)
            if name is None:
                raise Untranslatable("iter_mut on a complex receiver")
            x = self.var(name)
            f = "fun %s => %s" % (lname(pat[1]), self.ex(body[1][0][1][3]))
            n = self.ex(it[3][0]) if it[2] == "take" else "%s.length" % x
            return "let %s := TieAux.mapTake %s (%s) %s;\n%s" % (x, par(n), f, x, rest())
        esc = self.escapes(body, label)
        if "deep-own" in esc:
            esc.discard("deep-own")
        W = [a for a in assigned(body) if a not in set(declared(body)) and a not in pat_vars(pat)]
        lbls = [x for x in esc if isinstance(x, tuple)]
        if lbls and "ret" in esc:
            raise Untranslatable("loop with both a `return` and a labelled jump to an outer loop")
        if len(lbls) > 1:
            raise Untranslatable("loop with labelled jumps to several targets")
        # the iterated list (possibly behind a strict index)
        def with_list(lst):
            st = tup(W)
            patl = self.bind_pat(pat)
            if pat[0] not in ("pvar", "pwild"):
                x = self.fresh("x")
                bindp = lambda inner: "(match %s with\n| %s => (\n%s))" % (x, patl, inner)
            else:
                x = patl
                bindp = lambda inner: inner
            sv = st if len(W) <= 1 else self.fresh("st")
            unpack = ""
            if len(W) > 1:
                names = [lname(n.replace("self.", "self_")) for n in W]
                for i, n in enumerate(names):
                    unpack += "let %s := %s%s;\n" % (n, sv, ".2" * i + (".1" if i < len(names) - 1 else ""))
            if sv == "()":
                sv = "_"
            if not (esc - {"continue"}):
                self.loops.append({"label": label, "mode": "fold", "W": W})
                b = self.seq(body[1], body[2], lambda v: st)
                self.loops.pop()
                val = "List.foldl (fun %s %s =>\n%s%s) %s %s" % (sv, x, unpack, bindp(b), st, par(lst))
                if not W:
                    raise Untranslatable("`for` loop without effect")
                return "%s\n%s" % (self.bind_state(W, val), rest())
            if lbls:
                for o in self.loops:
                    if set(o["W"]) & set(W):
                        raise Untranslatable("labelled jump out of a loop that shares state with the outer loop")
            self.loops.append({"label": label, "mode": "step", "W": W})
            b = self.seq(body[1], body[2], lambda v: ".go " + par(st))
            self.loops.pop()
            # what happens after the loop
            if "ret" in esc:
                onret = "fun r => .ret r" if (self.loops and self.loops[-1]["mode"] != "fuel") else "fun r => r"
            elif lbls:
                onret = "fun _ => " + self.do_jump(lbls[0][1], lbls[0][2])
            else:
                onret = None
            after = rest()
            loop = "TieAux.forStep %s %s (fun %s %s =>\n%s%s)" % (par(lst), par(st), sv, x, unpack, bindp(b))
            sv2 = st if len(W) <= 1 else self.fresh("st")
            unpack2 = unpack.replace(sv + ".", sv2 + ".").replace(":= %s\n" % sv, ":= %s\n" % sv2) if len(W) > 1 else ""
            if sv2 == "()":
                sv2 = "_"
            if onret is None:
                return "(%s).fin' (fun %s =>\n%s%s)" % (loop, sv2, unpack2, after)
            return "(%s).fin (fun %s =>\n%s%s) (%s)" % (loop, sv2, unpack2, after, onret)
        s = strip(it)
        if self.panic and self.is_panic_op(s):
            return self.hoist(s, with_list)
        return with_list(self.iter_list(it))

    def loop(self, e, rest):
        if self.spec.get("at_loop"):
            return self.spec["at_loop"](self)
        raise Untranslatable("`loop` outside of the fuel schema")

    # ------------------------------------------------------------------ kinds
    FIELD_KINDS = {"true_assignments": "varset", "false_assignments": "varset", "sat_clauses": "bitfn", "model": "pm",
                   "b": "bitset", "state_stack": "stack", "state": "stack",
                   "contains_pos_lit": "occ", "contains_neg_lit": "occ",
                   "pos_lits": "strictlist", "neg_lits": "strictlist", "cur": "option"}

    def field_kind(self, name):
        return self.FIELD_KINDS.get(name.split(".")[-1])

    def kind_of(self, e):
        s = strip(e)
        if s[0] == "path" and len(s[1]) == 1:
            return self.kinds.get(s[1][0])
        if s[0] == "field":
            return self.FIELD_KINDS.get(s[2])
        if s[0] == "if" and s[3] is not None and s[2][2] is not None:
            return self.kind_of(s[2][2])
        if s[0] == "mcall" and s[2] == "top_state":
            return "satstate"
        if s[0] == "mcall" and s[2] in ("first", "last", "position", "find", "get", "max", "min") and self.kind_of(s[1]) not in ("pm", "stack"):
            return "option"
        if s[0] == "mcall" and s[2] == "take" and self.kind_of(s[1]) == "primes":
            return None
        if s[0] == "mcall" and s[2] in ("filter", "map", "chain", "difference", "assignment_iter", "skip", "take", "enumerate", "rev"):
            return "iter"
        if s[0] == "struct" and s[1][-1] == "Literal" and self.flavor == "word":
            return "word"
        if s[0] == "call" and s[1][0] == "path" and s[1][1] == ["primal", "Primes", "all"]:
            return "primes"
        if s[0] == "call" and s[1][0] == "path" and s[1][1][0] == "BitSet":
            return "bitfn" if self.flavor == "unitprop" else "bitset"
        if s[0] == "call" and s[1][0] == "path" and s[1][1][0] == "VarSet":
            return "varset"
        if s[0] == "call" and s[1][0] == "path" and s[1][1][0] == "PartialModel":
            return "pm"
        if s[0] == "struct" and s[1][-1] == "SATSolver":
            return "solver"
        return None

    def watch_list(self, r):
        """`self.watch_list_pos[i]` -> ('true', i)"""
        if self.flavor != "unitprop" or r[0] != "index":
            return None
        n = path_name(r[1])
        if n in ("self.watch_list_pos", "watch_list_pos"):
            return ("true", self.ex(r[2]))
        if n in ("self.watch_list_neg", "watch_list_neg"):
            return ("false", self.ex(r[2]))
        return None

    def stack_from_end(self, n):
        """`S[S.len() - k]` on a stack S -> (S, k)"""
        if n[0] != "index":
            return None
        base = path_name(n[1])
        if base not in self.spec.get("stacks", ()):
            return None
        i = strip(n[2])
        if i[0] == "binary" and i[1] == "-" and strip(i[2])[0] == "mcall" and strip(i[2])[2] == "len" \
                and path_name(strip(i[2])[1]) == base and i[3][0] == "num":
            return (base, int(i[3][1]))
        raise Untranslatable("index into a stack")

    # ------------------------------------------------------------------ expressions
    def binop(self, op, a, b, ea=None, eb=None):
        ops = self.spec.get("ops", {})
        if op in ops and ea is not None and path_name(ea) in ops[op][1]:
            return "%s %s %s" % (ops[op][0], par(a), par(b))
        if op in ("==", "!=", "<", ">", "<=", ">=", "&&", "||", "+", "-", "*", "%", "/"):
            lop = {"!=": "!="}.get(op, op)
            return "%s %s %s" % (par(a), lop, par(b))
        if op == "^":
            return "%s != %s" % (par(a), par(b))
        raise Untranslatable("operator " + op)

    def closure(self, c, nparams=1, fin=None, extra_params=()):
        while c[0] in ("block", "paren") and (c[0] == "paren" or (not c[1] and c[2] is not None)):
            c = c[1] if c[0] == "paren" else c[2]
        if c[0] == "path":
            # function passed by name
            if c[1] in (["VarLabel", "new_usize"], ["VarLabel", "new"]):
                return None
            if c[1] == ["Some"]:
                return "some"
            raise Untranslatable("function value " + "::".join(c[1]))
        if c[0] != "closure":
            raise Untranslatable("expected a closure")
        ps = list(extra_params) + [self.bind_pat(p) for p in c[1]]
        b = c[2]
        fin = fin or (lambda v: v if v is not None else "()")
        saved_prelude = self.prelude
        self.prelude = []
        saved = self.loops
        self.loops = []          # a closure is its own function context
        saved_res, saved_panic = self.spec["result"], self.panic
        self.spec = dict(self.spec, result=lambda fn, v: v)
        self.panic = False
        try:
            if b[0] == "block":
                body = self.seq(b[1], b[2], fin)
            else:
                body = self.tail(b, fin)
            if self.prelude:
                raise Untranslatable("internal: unflushed prelude in a closure")
        finally:
            self.prelude = saved_prelude
            self.loops = saved
            self.spec = dict(self.spec, result=saved_res)
            self.panic = saved_panic
        return "fun %s =>\n%s" % (" ".join(ps) if ps else "_", body)

    def top_state(self):
        if self.stack_mutated:
            raise Untranslatable("top_state() after the state stack was modified")
        self.used_top = True
        return "top"

    def ex(self, e, as_iter=False, allow_panic_call=False):
        if id(e) in self.subst:
            return self.subst[id(e)]
        k = e[0]
        if k in ("paren",):
            return self.ex(e[1])
        if k == "ref":
            return self.ex(e[1])
        if k == "unary":
            if e[1] == "*":
                return self.ex(e[2])
            if e[1] == "!":
                return "!" + par(self.ex(e[2]))
            raise Untranslatable("unary " + e[1])
        if k == "num":
            return e[1]
        if k == "path":
            if len(e[1]) == 1:
                n = e[1][0]
                if n in ("true", "false"):
                    return n
                if n == "None":
                    return "none"
                if n == "self":
                    return self.spec.get("self", "self")
                if n in self.spec.get("consts", {}):
                    return self.spec["consts"][n]
                return self.var(n)
            full = "::".join(e[1])
            if full in self.spec.get("consts", {}):
                return self.spec["consts"][full]
            raise Untranslatable("path " + full)
        if k == "cast":
            if e[2] in ("usize", "u64", "u128", "u32"):
                return self.ex(e[1])
            raise Untranslatable("cast to " + e[2])
        if k == "tuple":
            return "(" + ", ".join(self.ex(x) for x in e[1]) + ")"
        if k == "binary":
            return self.binop(e[1], self.ex(e[2]), self.ex(e[3]), e[2], e[3])
        if k == "if":
            if e[3] is None:
                raise Untranslatable("`if` without `else` as a value")
            c = self.ex(e[1])
            c0 = set(self.consumed)
            a = self.blockval(e[2])
            ca = set(self.consumed)
            self.consumed = set(c0)
            b = self.blockval(e[3])
            self.consumed |= ca
            return "if %s then %s else %s" % (c, a, b)
        if k == "match":
            return self.match(e, self.blockval)
        if k == "block":
            return self.blockval(e)
        if k == "range":
            if e[1] != "..":
                raise Untranslatable("inclusive range")
            a, b = self.ex(e[2]), self.ex(e[3])
            return "List.range' %s (%s - %s)" % (par(a), par(b), par(a)) if a != "0" else "List.range %s" % par(b)
        if k == "macro":
            if e[1] == "vec" and e[3] is not None:
                return "List.replicate %s %s" % (par(self.ex(e[3])), par(self.ex(e[2][0])))
            if e[1] == "vec":
                return "[" + ", ".join(self.ex(x) for x in e[2]) + "]"
            raise Untranslatable("macro %s!" % e[1])
        if k == "repeat":
            return "List.replicate %s %s" % (par(self.ex(e[2])), par(self.ex(e[1])))
        if k == "struct":
            return self.struct(e)
        if k == "field":
            n = path_name(e)
            if n:
                return self.var(n)
            base = self.ex(e[1])
            fm = self.spec.get("subfields", {})
            if e[2] not in fm:
                raise Untranslatable("field ." + e[2])
            return "%s.%s" % (par(base), fm[e[2]])
        if k == "tfield":
            if self.kind_of(e[1]) == "label":
                return self.ex(e[1])
            return "%s.%d" % (par(self.ex(e[1])), int(e[2]) + 1)
        if k == "index":
            wl = self.watch_list(e)
            if wl is not None:
                return "wl.get %s %s" % (wl[0], par(wl[1]))
            n = path_name(e[1])
            if self.kind_of(e[1]) == "occ":
                return "%s %s" % (par(self.ex(e[1])), par(self.ex(e[2])))
            sfe = self.stack_from_end(e)
            if sfe is not None:
                raise Untranslatable("stack index outside of a hoisted position")
            if n in self.spec.get("strict", ()) or (self.panic and self.kind_of(e[1]) == "strictlist"):
                raise Untranslatable("strict index `%s[..]` in a position that cannot be hoisted" % n)
            base = self.ex(e[1])
            d = self.spec.get("defaults", {}).get(n, "default")
            sb = strip(e[1])
            if n is None and sb[0] == "index" and self.watch_list(sb) is not None:
                d = "0"
            if n is None and sb[0] == "mcall" and sb[2] == "clauses":
                d = "[]"
            return "%s.getD %s %s" % (par(base), par(self.ex(e[2])), par(d))
        if k == "call":
            return self.call(e)
        if k == "mcall":
            return self.mcall(e, as_iter, allow_panic_call)
        if k == "closure":
            return "(" + self.closure(e) + ")"
        raise Untranslatable("expression of kind " + k)

    def blockval(self, b):
        if b[0] != "block":
            return par(self.ex(b))
        if self.has_jump(b):
            raise Untranslatable("jump inside a value block")
        return "(" + self.seq(b[1], b[2], lambda v: v if v is not None else "()") + ")"

    def struct(self, e):
        name = e[1][-1]
        st = self.spec.get("structs", {})
        if name == "Self":
            name = self.spec.get("Self", name)
        if name not in st:
            raise Untranslatable("struct literal " + name)
        fm = st[name]
        if callable(fm):
            return fm(self, dict((f, v) for f, v in e[2]))
        got = dict((f, self.ex(v)) for f, v in e[2])
        if set(got) != set(fm):
            raise Untranslatable("fields of %s" % name)
        body = "{ " + ", ".join("%s := %s" % (fm[f], got[f]) for f in fm) + " }"
        ty = self.spec.get("struct_types", {}).get(name)
        return "(%s : %s)" % (body, ty) if ty else body

    def call(self, e):
        f, args = e[1], e[2]
        if f[0] != "path":
            raise Untranslatable("call of a computed function")
        full = "::".join(f[1])
        if f[1] in (["VarLabel", "new"], ["VarLabel", "new_usize"], ["VarLabel"]) and len(args) == 1:
            return self.ex(args[0])
        if full == "Some" and len(args) == 1:
            return "some %s" % par(self.ex(args[0]))
        if full in ("Vec::new", "Vec::with_capacity", "HashSet::new"):
            return "[]"
        if full == "primal::Primes::all" and not args:
            return "1"
        if full in ("usize::from", "u64::from", "u128::from") and len(args) == 1:
            return "(if %s then 1 else 0)" % self.ex(args[0])
        table = self.spec.get("calls", {})
        if full in table:
            t = table[full]
            if callable(t):
                return t(self, args)
            a = [par(self.ex(x)) for x in args]
            if t.count("%s") != len(a):
                raise Untranslatable("arity of " + full)
            return t % tuple(a)
        raise Untranslatable("call of " + full)

    def mcall(self, e, as_iter=False, allow_panic_call=False):
        _, recv, m, args = e
        if m in self.spec.get("forbid", ()):
            raise Untranslatable("iterator combinator .%s in a function that is tied through its loop form only" % m)
        r = strip(recv)
        rk = self.kind_of(recv)
        name = path_name(recv)
        # flavour-specific method tables first
        t = self.spec.get("methods", {})
        key = (rk, m)
        if key in t or ((None, m) in t and rk is None):
            tm = t.get(key) or t[(None, m)]
            a = [par(self.ex(recv))] + [par(self.ex(x)) for x in args]
            if callable(tm):
                return tm(self, recv, args)
            tm = tm.replace("$numVars", self.spec.get("numVars", "numVars"))
            if tm.count("%s") != len(a):
                raise Untranslatable("arity of ." + m)
            return tm % tuple(a)
        # erased wrappers
        if m in ("clone", "iter", "into_iter", "copied", "cloned", "as_slice", "as_ref", "to_vec", "value", "value_usize",
                 "collect", "by_ref") and not args:
            return self.ex(recv, as_iter)
        if m in self.spec.get("self_calls", {}) and r == ("path", ["self"]) or (m in self.spec.get("self_calls", {}) and r == ("path", ["Self"])):
            tm = self.spec["self_calls"][m]
            if m in self.spec.get("panic_calls", ()) and not allow_panic_call:
                raise Untranslatable("panicking call `%s` in a position that cannot be hoisted" % m)
            a = [par(self.ex(x)) for x in args]
            return tm % tuple(a)
        # literals
        if m == "label" and not args:
            return "%s.var" % par(self.ex(recv))
        if m == "polarity" and not args:
            return "%s.pol" % par(self.ex(recv))
        if m == "wrapping_mul":
            return "wmul %s %s" % (par(self.ex(recv)), par(self.ex(args[0])))
        if m == "mul" and "mul" in self.spec.get("ops", {}):
            return "%s %s %s" % (self.spec["ops"]["mul"], par(self.ex(recv)), par(self.ex(args[0])))
        if m == "unwrap" and not args:
            # iterator heads
            if r[0] == "mcall" and r[2] == "next" and path_name(r[1]) and self.kinds.get(path_name(r[1])) == "primes":
                P = lname(path_name(r[1]))
                self.prelude.append("let %s := nextPrime %s;\n" % (P, P))
                return P
            if r[0] == "mcall" and r[2] in ("next", "nth"):
                it = r[1]
                itn = path_name(it) if it[0] == "path" else None
                cloned = it[0] == "mcall" and it[2] == "clone"
                lst = self.ex(it)
                if not cloned:
                    if itn is None or self.kinds.get(itn) != "iter":
                        raise Untranslatable(".next() on something that is not a tracked iterator")
                    self.consumed.add(itn)   # dead afterwards (checked by `var`)
                if r[2] == "next":
                    return "%s.headD default" % par(lst)
                return "%s.getD %s default" % (par(lst), par(self.ex(r[3][0])))
            if self.kind_of(recv) == "option":
                return "(%s.getD default)" % par(self.ex(recv))
            raise Untranslatable(".unwrap() outside the supported positions")
        if m == "unwrap_or" and r[0] == "mcall" and r[2] == "max" and not r[3]:
            return "%s.foldl max %s" % (par(self.ex(r[1])), par(self.ex(args[0])))
        # list / iterator combinators
        if m == "len" and not args:
            if rk == "bitfn":
                return "satCount %s %s" % (self.spec["nclauses"], par(self.ex(recv)))
            return "%s.length" % par(self.ex(recv))
        if m == "count" and not args:
            return "%s.length" % par(self.ex(recv))
        if m == "is_empty" and not args:
            return "%s.isEmpty" % par(self.ex(recv))
        if m == "is_none" and not args:
            return "%s.isNone" % par(self.ex(recv))
        if m == "is_some" and not args:
            return "%s.isSome" % par(self.ex(recv))
        if m == "contains" and len(args) == 1:
            if rk == "bitfn":
                return "%s %s" % (par(self.ex(recv)), par(self.ex(args[0])))
            return "%s.contains %s" % (par(self.ex(recv)), par(self.ex(args[0])))
        if m == "map" and len(args) == 1:
            cl = args[0]
            while cl[0] in ("block", "paren") and (cl[0] == "paren" or (not cl[1] and cl[2] is not None)):
                cl = cl[1] if cl[0] == "paren" else cl[2]
            if cl[0] == "closure":
                muts = [a for a in assigned(cl[2]) if a not in declared(cl) and self.kinds.get(a) == "primes"]
                if muts:
                    P = lname(muts[0])
                    lst = par(self.ex(recv))
                    c = self.closure(cl, fin=lambda v: "(%s, %s)" % (v, P), extra_params=(P,))
                    r = self.fresh("r")
                    self.prelude.append("let %s := TieAux.mapAccum (%s) %s %s;\nlet %s := %s.2;\n" % (r, c, P, lst, P, r))
                    return "%s.1" % r
        if m in ("map", "filter", "any", "all", "filter_map") and len(args) == 1:
            c = self.closure(args[0])
            if c is None:
                return self.ex(recv)
            lm = {"filter_map": "filterMap"}.get(m, m)
            return "%s.%s (%s)" % (par(self.ex(recv)), lm, c)
        if m == "flatten" and not args:
            return "%s.flatten" % par(self.ex(recv))
        if m == "chain" and len(args) == 1:
            return "%s ++ %s" % (par(self.ex(recv)), par(self.ex(args[0])))
        if m == "enumerate" and not args:
            return "TieAux.enum %s" % par(self.ex(recv))
        if m == "fold" and len(args) == 2:
            c = args[1]
            if c[0] != "closure" or len(c[1]) != 2:
                raise Untranslatable("fold closure")
            return "List.foldl (%s) %s %s" % (self.closure(c), par(self.ex(args[0])), par(self.ex(recv)))
        if m == "get" and len(args) == 1 and rk is None:
            return "%s[%s]?" % (par(self.ex(recv)), self.ex(args[0]))
        if m == "windows" and len(args) == 1:
            return "TieAux.windows %s %s" % (par(self.ex(args[0])), par(self.ex(recv)))
        if m == "take" and len(args) == 1 and rk == "primes":
            return ("primesAfter %s 1" if self.flavor == "unitprop" else "primesFrom %s 1") % par(self.ex(args[0]))
        if m in ("take", "skip") and len(args) == 1:
            return "%s.%s %s" % (par(self.ex(recv)), {"take": "take", "skip": "drop"}[m], par(self.ex(args[0])))
        if m == "rev" and not args:
            return "%s.reverse" % par(self.ex(recv))
        if m == "zip" and len(args) == 1:
            return "List.zip %s %s" % (par(self.ex(recv)), par(self.ex(args[0])))
        if m == "first" and not args:
            return "%s.head?" % par(self.ex(recv))
        if m == "last" and not args and rk != "stack":
            return "%s.getLast?" % par(self.ex(recv))
        if m == "position" and len(args) == 1:
            return "List.findIdx? (%s) %s" % (self.closure(args[0]), par(self.ex(recv)))
        if m == "find" and len(args) == 1:
            return "List.find? (%s) %s" % (self.closure(args[0]), par(self.ex(recv)))
        if m == "is_ok" and not args and r[0] == "mcall" and r[2] == "binary_search" and len(r[3]) == 1:
            return "TieAux.binarySearchOk %s %s" % (par(self.ex(r[1])), par(self.ex(r[3][0])))
        if m == "sum" and not args:
            return "%s.foldl (· + ·) 0" % par(self.ex(recv))
        if m == "unwrap_or" and len(args) == 1:
            return "%s.getD %s" % (par(self.ex(recv)), par(self.ex(args[0])))
        if m == "map_or" and len(args) == 2 and rk == "option":
            return "(match %s with | some x_ => (%s) x_ | none => %s)" % (self.ex(recv), self.closure(args[1]), par(self.ex(args[0])))
        if m == "and_then" and len(args) == 1 and rk == "option":
            return "%s.bind (%s)" % (par(self.ex(recv)), self.closure(args[0]))
        raise Untranslatable("method .%s (receiver kind %s)" % (m, rk))


# =============================================================================================
# specifications: Lean signature of every generated definition (static, trusted) + flavour tables
# =============================================================================================
VAL = lambda fn, v: v if v is not None else "()"
SELF = lambda fn, v: fn.final_self()

R = "src/repr/"
WORD = dict(flavor="word", self="self", result=VAL,
            methods={(None, "label"): "packedLabel %s", (None, "polarity"): "packedPolarity %s",
                     ("word", "label"): "packedLabel %s", ("word", "polarity"): "packedPolarity %s"},
            calls={"Literal::new": "packNew %s %s"},
            structs={"Literal": lambda fn, f: fn.ex(f["data"]) if set(f) == {"data"} else (_ for _ in ()).throw(Untranslatable("Literal literal"))})
VARSET = dict(flavor="varset", self="s", fields={"b": "$self.elems"}, subfields={"b": "elems"},
              calls={"BitSet::new": "([] : List Nat)", "BitSet::with_capacity": lambda fn, a: "([] : List Nat)"},
              structs={"VarSet": lambda fn, f: "(⟨%s⟩ : VarSet)" % fn.ex(f["b"]) if set(f) == {"b"} else (_ for _ in ()).throw(Untranslatable("VarSet literal"))},
              methods={("bitset", "union"): "%s.foldl (fun acc v => VarSet.insertL v acc) %s",
                       ("bitset", "difference"): "%s.filter (fun x => !%s.contains x)",
                       ("bitset", "intersection"): "%s.filter (fun x => %s.contains x)"})
# `a.union(&b)` folds over b starting from a: argument order of the format is (receiver, arg) -> swap
VARSET["methods"][("bitset", "union")] = lambda fn, recv, args: "%s.foldl (fun acc v => VarSet.insertL v acc) %s" % (par(fn.ex(args[0])), par(fn.ex(recv)))
PM = dict(flavor="cnfutil", self="m", fields={"true_assignments": "$self.trueA", "false_assignments": "$self.falseA"},
          subfields={"true_assignments": "trueA", "false_assignments": "falseA"},
          structs={"PartialModel": {"true_assignments": "trueA", "false_assignments": "falseA"}},
          calls={"VarSet::new_with_num_vars": "VarSet.newWithNumVars %s", "Literal::new": "Lit.mk %s %s",
                 "Self::from_assignments": "PartialModel.fromAssignments %s", "PartialModel::from_assignments": "PartialModel.fromAssignments %s"},
          methods={("varset", "contains"): "%s.contains %s", ("varset", "iter"): "%s.iter", ("varset", "difference"): "%s.difference %s"},
          self_calls={"get": "PartialModel.get m %s"}, defaults={})
CNF = dict(flavor="cnfutil", self="c", fields={"clauses": "$self.clauses", "num_vars": "$self.numVars", "hasher": "$self.hasher"},
           structs={"Cnf": {"clauses": "clauses", "num_vars": "numVars", "hasher": "hasher"}},
           calls={"CnfHasher::new": "CnfHasher.new %s %s", "Cnf::new": "cnfNew %s", "AssignmentIter::new": "assignmentIter %s",
                  "T::zero": "S.zero", "T::one": "S.one"},
           methods={("pm", "get"): "%s.get %s", (None, "var_weight"): lambda fn, recv, args: "w %s" % par(fn.ex(args[0]))},
           self_calls={"num_vars": "c.numVars", "eval": "eval c %s"}, panic_calls=("eval",),
           ops={"+": ("S.add", {"total"}), "mul": "S.mul"}, defaults={"assignment": "false"})
HASHER = dict(flavor="cnfutil", self="h", fields={"weighted_cnf": "$self.weighted", "state": "$self.state", "pos_lits": "$self.posLits",
                                                  "neg_lits": "$self.negLits"},
              stacks=("self.state",), strict=("self.pos_lits", "self.neg_lits"), defaults={"self.weighted_cnf": "[]"},
              consts={"NUM_PRIMES": "numPrimes"}, methods={("pm", "lit_implied"): "%s.litImplied %s", ("pm", "lit_neg_implied"): "%s.litNegImplied %s"},
              calls={"Literal::new": "Lit.mk %s %s"},
              structs={"CnfHasher": {"weighted_cnf": "weighted", "state": "state", "pos_lits": "posLits", "neg_lits": "negLits"}, "HashedCNF": lambda fn, f: fn.ex(f["v"]) if set(f) == {"v"} else (_ for _ in ()).throw(Untranslatable("HashedCNF literal"))})
SOLVER = dict(flavor="unitprop", self="s", fields={"clauses": "$self.clauses", "state_stack": "$self.stack",
                                                   "contains_pos_lit": "(containsLit $self.clauses true)", "contains_neg_lit": "(containsLit $self.clauses false)"},
              subfields={"model": "model", "hash": "hash", "sat_clauses": "sat"}, stacks=("self.state_stack",),
              structs={"SatState": {"model": "model", "hash": "hash", "sat_clauses": "sat"}},
              methods={("pm", "is_set"): "(%s %s).isSome", ("pm", "lit_implied"): "litTrue %s %s", ("pm", "get"): "%s %s",
                       ("pm", "difference"): "pmDifference $numVars %s %s", (None, "top_state"): lambda fn, recv, args: fn.top_state()},
              self_calls={"update_hash_and_sat_set": "updateHashAndSatSet s.clauses s.numVars top %s",
                          "is_sat": "(satCount s.clauses.length top.sat == s.clauses.length)"},
              call_kinds={"update_hash_and_sat_set": (None, "bitfn")}, nclauses="s.clauses.length",
              consts={"DecisionResult::UNSAT": ".unsat", "DecisionResult::SAT": ".sat", "DecisionResult::Unknown": ".unknown"},
              numVars="s.numVars", top_state="wrap", up_decide="decideK (loop s.cnf true s.fuel) wl %s %s")


ITER = dict(flavor="cnfutil", self="it", fields={"cur": "cur", "num_vars": "num_vars"},
            result=lambda fn, v: "(%s, %s)" % (v, "self_cur" if "cur" in fn.selfmut else "cur"))


def spec(base, **kw):
    d = dict(base)
    d.update(kw)
    return d


# (status key, source file, impl regex, fn name, lean name, lean binder text, lean return type, model definition, spec)
FUNCS = [
    ("Literal::new", "var_label.rs", r"impl Literal\b", "new", "packNew", "(label : Nat) (polarity : Bool)", "Nat", "CnfUtil.packNew", WORD),
    ("Literal::label", "var_label.rs", r"impl Literal\b", "label", "packedLabel", "(self : Nat)", "Nat", "CnfUtil.packedLabel", WORD),
    ("Literal::polarity", "var_label.rs", r"impl Literal\b", "polarity", "packedPolarity", "(self : Nat)", "Bool", "CnfUtil.packedPolarity", WORD),
    ("Literal::implies_true", "var_label.rs", r"impl Literal\b", "implies_true", "packedImpliesTrue", "(self other : Nat)", "Bool", "CnfUtil.packedImpliesTrue", WORD),
    ("Literal::implies_false", "var_label.rs", r"impl Literal\b", "implies_false", "packedImpliesFalse", "(self other : Nat)", "Bool", "CnfUtil.packedImpliesFalse", WORD),
    ("Literal::negated", "var_label.rs", r"impl Literal\b", "negated", "packedNegated", "(self : Nat)", "Nat", "CnfUtil.packedNegated", WORD),
    ("VarSet::new", "var_label.rs", r"impl VarSet\b", "new", "vsNew", "", "VarSet", "CnfUtil.VarSet.new", spec(VARSET, result=VAL)),
    ("VarSet::new_with_num_vars", "var_label.rs", r"impl VarSet\b", "new_with_num_vars", "vsNewWithNumVars", "(num_vars : Nat)", "VarSet", "CnfUtil.VarSet.newWithNumVars", spec(VARSET, result=VAL)),
    ("VarSet::union_with", "var_label.rs", r"impl VarSet\b", "union_with", "vsUnionWith", "(s other : VarSet)", "VarSet", "CnfUtil.VarSet.unionWith", spec(VARSET, result=SELF)),
    ("VarSet::iter", "var_label.rs", r"impl VarSet\b", "iter", "vsIter", "(s : VarSet)", "List Nat", "CnfUtil.VarSet.iter", spec(VARSET, result=VAL)),
    ("VarSet::union", "var_label.rs", r"impl VarSet\b", "union", "vsUnion", "(s other : VarSet)", "VarSet", "CnfUtil.VarSet.union", spec(VARSET, result=VAL)),
    ("VarSet::minus", "var_label.rs", r"impl VarSet\b", "minus", "vsMinus", "(s other : VarSet)", "VarSet", "CnfUtil.VarSet.minus", spec(VARSET, result=VAL)),
    ("VarSet::insert", "var_label.rs", r"impl VarSet\b", "insert", "vsInsert", "(s : VarSet) (v : Nat)", "VarSet", "CnfUtil.VarSet.insert", spec(VARSET, result=SELF)),
    ("VarSet::contains", "var_label.rs", r"impl VarSet\b", "contains", "vsContains", "(s : VarSet) (v : Nat)", "Bool", "CnfUtil.VarSet.contains", spec(VARSET, result=VAL)),
    ("VarSet::intersect", "var_label.rs", r"impl VarSet\b", "intersect", "vsIntersect", "(s other : VarSet)", "List Nat", "CnfUtil.VarSet.intersect", spec(VARSET, result=VAL)),
    ("VarSet::remove", "var_label.rs", r"impl VarSet\b", "remove", "vsRemove", "(s : VarSet) (v : Nat)", "VarSet", "CnfUtil.VarSet.remove", spec(VARSET, result=SELF)),
    ("VarSet::difference", "var_label.rs", r"impl VarSet\b", "difference", "vsDifference", "(s other : VarSet)", "List Nat", "CnfUtil.VarSet.difference", spec(VARSET, result=VAL)),
    ("VarSet::intersect_varset", "var_label.rs", r"impl VarSet\b", "intersect_varset", "vsIntersectVarset", "(s other : VarSet)", "VarSet", "CnfUtil.VarSet.intersectVarset", spec(VARSET, result=VAL)),
    ("VarSet::is_empty", "var_label.rs", r"impl VarSet\b", "is_empty", "vsIsEmpty", "(s : VarSet)", "Bool", "CnfUtil.VarSet.isEmpty", spec(VARSET, result=VAL)),
    ("VarSet::len", "var_label.rs", r"impl VarSet\b", "len", "vsLen", "(s : VarSet)", "Nat", "CnfUtil.VarSet.len", spec(VARSET, result=VAL)),
    ("VarSet::eq", "var_label.rs", r"impl PartialEq for VarSet", "eq", "vsEq", "(s other : VarSet)", "Bool", "TieAux.varSetEq", spec(VARSET, result=VAL)),
    ("PartialModel::new", "model.rs", r"impl PartialModel\b", "new", "pmNew", "(num_vars : Nat)", "PartialModel", "CnfUtil.PartialModel.new", spec(PM, result=VAL)),
    ("PartialModel::from_assignments", "model.rs", r"impl PartialModel\b", "from_assignments", "pmFromAssignments", "(assignments : List (Option Bool))", "PartialModel", "CnfUtil.PartialModel.fromAssignments", spec(PM, result=VAL)),
    ("PartialModel::from_total_model", "model.rs", r"impl PartialModel\b", "from_total_model", "pmFromTotalModel", "(assignments : List Bool)", "PartialModel", "CnfUtil.PartialModel.fromTotalModel", spec(PM, result=VAL)),
    ("PartialModel::from_litvec", "model.rs", r"impl PartialModel\b", "from_litvec", "pmFromLitvec", "(assignments : List Lit) (num_vars : Nat)", "Option PartialModel", "CnfUtil.PartialModel.fromLitvec", spec(PM, result=VAL, panic=True, strict=("init_assgn",))),
    ("PartialModel::unset", "model.rs", r"impl PartialModel\b", "unset", "pmUnset", "(m : PartialModel) (label : Nat)", "PartialModel", "CnfUtil.PartialModel.unset", spec(PM, result=SELF)),
    ("PartialModel::set", "model.rs", r"impl PartialModel\b", "set", "pmSet", "(m : PartialModel) (label : Nat) (value : Bool)", "PartialModel", "CnfUtil.PartialModel.set", spec(PM, result=SELF)),
    ("PartialModel::get", "model.rs", r"impl PartialModel\b", "get", "pmGet", "(m : PartialModel) (label : Nat)", "Option Bool", "CnfUtil.PartialModel.get", spec(PM, result=VAL)),
    ("PartialModel::lit_implied", "model.rs", r"impl PartialModel\b", "lit_implied", "pmLitImplied", "(m : PartialModel) (lit : Lit)", "Bool", "CnfUtil.PartialModel.litImplied", spec(PM, result=VAL)),
    ("PartialModel::lit_neg_implied", "model.rs", r"impl PartialModel\b", "lit_neg_implied", "pmLitNegImplied", "(m : PartialModel) (lit : Lit)", "Bool", "CnfUtil.PartialModel.litNegImplied", spec(PM, result=VAL)),
    ("PartialModel::is_set", "model.rs", r"impl PartialModel\b", "is_set", "pmIsSet", "(m : PartialModel) (label : Nat)", "Bool", "CnfUtil.PartialModel.isSet", spec(PM, result=VAL)),
    ("PartialModel::assignment_iter", "model.rs", r"impl PartialModel\b", "assignment_iter", "pmAssignmentIter", "(m : PartialModel)", "List Lit", "CnfUtil.PartialModel.assignmentIter", spec(PM, result=VAL)),
    ("PartialModel::difference", "model.rs", r"impl PartialModel\b", "difference", "pmDifference", "(m other : PartialModel)", "List Lit", "CnfUtil.PartialModel.difference", spec(PM, result=VAL)),
    ("Cnf::new", "cnf.rs", r"impl Cnf\b", "new", "cnfNew", "(clauses : List (List Lit))", "CnfM", "CnfUtil.cnfNew", spec(CNF, result=VAL)),
    ("Cnf::num_vars", "cnf.rs", r"impl Cnf\b", "num_vars", "cnfNumVars", "(c : CnfM)", "Nat", "CnfUtil.numVars", spec(CNF, result=VAL)),
    ("Cnf::eval", "cnf.rs", r"impl Cnf\b", "eval", "cnfEval", "(c : CnfM) (assignment : List Bool)", "Option Bool", "CnfUtil.eval", spec(CNF, result=VAL, panic=True, panic_calls=())),
    ("Cnf::is_sat_partial", "cnf.rs", r"impl Cnf\b", "is_sat_partial", "cnfIsSatPartial", "(c : CnfM) (partial_assignment : PartialModel)", "Bool", "CnfUtil.isSatPartial", spec(CNF, result=VAL)),
    ("Cnf::condition", "cnf.rs", r"impl Cnf\b", "condition", "cnfCondition", "(c : CnfM) (lit : Lit)", "CnfM", "CnfUtil.condition", spec(CNF, result=VAL)),
    ("Cnf::var_in_cnf", "cnf.rs", r"impl Cnf\b", "var_in_cnf", "cnfVarInCnf", "(c : CnfM) (v : Nat)", "Bool", "CnfUtil.varInCnf", spec(CNF, result=VAL, kinds={"v": "label"})),
    ("Cnf::wmc", "cnf.rs", r"impl Cnf\b", "wmc", "cnfWmc", "{α : Type} (S : SROps α) (c : CnfM) (w : Weights α)", "Option α", "@CnfUtil.wmc", spec(CNF, result=VAL, panic=True, defaults={"weight_vec": "(S.zero, S.zero)"})),
    ("AssignmentIter::next", "cnf.rs", r"impl Iterator for AssignmentIter\b", "next", "iterNext", "(cur : Option (List Bool)) (num_vars : Nat)", "Option (List Bool) × Option (List Bool)", "TieAux.iterNext", ITER),
    ("CnfHasher::new", "cnf.rs", r"impl CnfHasher\b", "new", "hasherNew", "(clauses : List (List Lit)) (num_vars : Nat)", "CnfHasher", "CnfUtil.CnfHasher.new", spec(HASHER, result=VAL)),
    ("CnfHasher::decide", "cnf.rs", r"impl CnfHasher\b", "decide", "hasherDecide", "(h : CnfHasher) (lit : Lit)", "Option CnfHasher", "CnfUtil.CnfHasher.decide", spec(HASHER, result=SELF, panic=True)),
    ("CnfHasher::push", "cnf.rs", r"impl CnfHasher\b", "push", "hasherPush", "(h : CnfHasher)", "Option CnfHasher", "CnfUtil.CnfHasher.push", spec(HASHER, result=SELF, panic=True)),
    ("CnfHasher::pop", "cnf.rs", r"impl CnfHasher\b", "pop", "hasherPop", "(h : CnfHasher)", "CnfHasher", "CnfUtil.CnfHasher.pop", spec(HASHER, result=SELF)),
    ("CnfHasher::hash", "cnf.rs", r"impl CnfHasher\b", "hash", "hasherHash", "(h : CnfHasher) (m : PartialModel)", "Option (List Nat)", "CnfUtil.CnfHasher.hashedCnf", spec(HASHER, result=VAL, panic=True)),
]

# translated by the translator, but the tie theorem is not proved yet: kept as aliases (status UNTRANSLATED)
DISABLED = {
}

UPD = dict(flavor="unitprop", self="self", fields={"cnf": "cnf"}, result=VAL,
           methods={("pm", "get"): "%s %s", (None, "clauses"): "%s", ("pm", "lit_implied"): "litTrue %s %s", ("pm", "is_set"): "(%s %s).isSome"},
           consts={"UnitPropResult::UNSAT": "some (wl, none)"}, calls={"UnitPropResult::PartialSAT": "some (wl, some %s)"},
           up_decide="decideK (upLoop cnf fuel) wl %s %s", fuel_out="none")


FUNCS += [
    ("UnitPropagate::decide", "unit_prop.rs", r"impl UnitPropagate\b", "decide", "upDecideK", "", "", "UnitProp.decideK", UPD),
    ("SATSolver::update_hash_and_sat_set", "unit_prop.rs", r"impl SATSolver\b", "update_hash_and_sat_set", "genUpdateHashAndSatSet",
     "(clauses : List (List (Lit × Nat))) (numVars : Nat) (top : SatState) (new_model : PModel)", "Nat × (Nat → Bool)", "UnitProp.updateHashAndSatSet",
     spec(SOLVER, result=VAL, top_state="param", numVars="numVars", defaults={"self.clauses": "[]"},
          fields={"clauses": "clauses", "contains_pos_lit": "(containsLit clauses true)", "contains_neg_lit": "(containsLit clauses false)"})),
    ("UnitPropagate::new", "unit_prop.rs", r"impl UnitPropagate\b", "new", "genUpNew", "(cnf : Cnf) (fuel : Nat)", "Option (Option (WL × PModel))", "TieAux.upNewModel",
     dict(flavor="unitprop", result=VAL, panic=True, wl_locals=True, fuel_out="none", up_decide="decideK (loop cnf true fuel) wl %s %s",
          fields={}, methods={(None, "clauses"): "%s", (None, "num_vars"): "cnfNumVars %s"},
          calls={"PartialModel::new": lambda fn, a: "PModel.empty"})),
    ("SATSolver::new", "unit_prop.rs", r"impl SATSolver\b", "new", "solverNew", "(cnf : Cnf)", "Option (Option Solver)", "TieAux.solverNewModel",
     spec(SOLVER, result=VAL, panic=True, top_state="none", up_new="upNew %s true (defaultFuel cnf)",
          dropped_fields=("contains_pos_lit", "contains_neg_lit"), struct_types={"SatState": "SatState"},
          methods={(None, "clauses"): "%s", (None, "num_vars"): "cnfNumVars %s"},
          calls={"PartialModel::new": lambda fn, a: "PModel.empty", "BitSet::new": "(fun _ => false)"},
          structs={"SatState": {"model": "model", "hash": "hash", "sat_clauses": "sat"},
                   "SATSolver": lambda fn, f: "({ cnf := cnf, numVars := cnfNumVars cnf, fuel := defaultFuel cnf, wl := %s, clauses := %s, stack := %s } : Solver)"
                                % (fn.ex(f["up"]), fn.ex(f["clauses"]), fn.ex(f["state_stack"]))
                                if set(f) == {"up", "clauses", "contains_pos_lit", "contains_neg_lit", "state_stack"}
                                else (_ for _ in ()).throw(Untranslatable("fields of SATSolver"))})),
    ("SATSolver::pop", "unit_prop.rs", r"impl SATSolver\b", "pop", "solverPop", "(s : Solver)", "Solver", "UnitProp.Solver.pop", spec(SOLVER, result=SELF)),
    ("SATSolver::cur_hash", "unit_prop.rs", r"impl SATSolver\b", "cur_hash", "solverCurHash", "(s : Solver)", "Option Nat", "UnitProp.Solver.curHash", spec(SOLVER, result=VAL, panic=True)),
    ("SATSolver::is_sat", "unit_prop.rs", r"impl SATSolver\b", "is_sat", "solverIsSat", "(s : Solver)", "Option Bool", "UnitProp.Solver.isSat", spec(SOLVER, result=VAL, panic=True)),
    ("SATSolver::is_set", "unit_prop.rs", r"impl SATSolver\b", "is_set", "solverIsSet", "(s : Solver) (var : Nat)", "Option Bool", "UnitProp.Solver.isSet", spec(SOLVER, result=VAL, panic=True)),
    ("SATSolver::difference_iter", "unit_prop.rs", r"impl SATSolver\b", "difference_iter", "solverDifferenceIter", "(s : Solver)", "Option (List Lit)", "UnitProp.Solver.differenceIter", spec(SOLVER, result=VAL, panic=True)),
    ("SATSolver::decide", "unit_prop.rs", r"impl SATSolver\b", "decide", "solverDecide", "(s : Solver) (assignment : Lit)", "StepOut", "UnitProp.Solver.decide",
     spec(SOLVER, result=lambda fn, v: ".ok { s with wl := wl, stack := %s } %s" % (fn.var("self.state_stack"), par(v)), panic=True, panic_wrap="%s", panic_val=".error", pre="let wl := s.wl;\n")),
]

# functions of the group this translator does not attempt (no generated definition, no tie theorem)
NOT_ATTEMPTED = {
}

NAMESPACES = {"cnfutil": "Gen.CnfUtil", "word": "Gen.CnfUtil", "varset": "Gen.CnfUtil", "unitprop": "Gen.UnitProp"}


def translate_varset_eq(entry, src):
    """`VarSet == VarSet`: the derived `PartialEq` (field-wise equality; `BitSet` equality is extensional = equality of
    the ascending member lists), or a hand-written `impl PartialEq for VarSet`"""
    key, fname, impl, fn, lean, binders, rty, model, sp = entry
    src = strip_comments(src)
    m = re.search(r"((?:#\[[^\]]*\]\s*)*)pub struct VarSet\s*\{([^}]*)\}", src)
    if not m:
        raise Untranslatable("struct VarSet not found")
    derives = set(x.strip() for d in re.findall(r"derive\(([^)]*)\)", m.group(1)) for x in d.split(","))
    if "PartialEq" in derives:
        if re.search(r"impl\s+PartialEq\s+for\s+VarSet", src):
            raise Untranslatable("both derived and hand-written PartialEq")
        conj = []
        for f in split_top(m.group(2)):
            f = f.strip()
            if not f:
                continue
            name = re.sub(r"^pub\s+", "", f.split(":")[0].strip())
            if name not in sp["subfields"]:
                raise Untranslatable("field %s of VarSet has no counterpart in the model" % name)
            conj.append("(s.%s == other.%s)" % (sp["subfields"][name], sp["subfields"][name]))
        if not conj:
            raise Untranslatable("VarSet has no fields")
        return "def %s %s : %s :=\n  %s" % (lean, binders, rty, " && ".join(conj))
    params, ret, body = find_fn(src, r"impl\s+PartialEq\s+for\s+VarSet", "eq")
    f = Fn(sp, params, body, {})
    term = f.seq(body[1], body[2], lambda v: f.fn_result(v))
    return "def %s %s : %s :=\n%s" % (lean, binders, rty, pretty(term))


def translate_up_decide(entry, src):
    """`UnitPropagate::decide`: the prelude becomes `upDecideK k wl m l`, the `loop { … }` becomes the fuel recursion
    `upLoop cnf (fuel+1) wl m l idx` (continue = recursive call, break = the code after the loop), exactly the shape of
    `UnitProp.decideK` / `UnitProp.loop`"""
    params, ret, body = find_fn(src, r"impl UnitPropagate\b", "decide")
    P = [n for (n, ty) in params if "PartialModel" in ty]
    L = [n for (n, ty) in params if ty == "Literal"]
    if len(P) != 1 or len(L) != 1 or len(params) != 3:
        raise Untranslatable("parameters of UnitPropagate::decide")
    P, L = P[0], L[0]
    idxs = [i for i, st in enumerate(body[1]) if st[0] == "expr" and st[1][0] == "loop"]
    if len(idxs) != 1 or body[1][idxs[0]][1][1] is not None:
        raise Untranslatable("expected exactly one top-level unlabelled `loop`")
    i = idxs[0]
    pre, lp, after = body[1][:i], body[1][i][1][2], body[1][i + 1:]
    W = [a for a in assigned(lp) if a not in set(declared(lp))]
    others = [a for a in W if a not in (P, "wl")]
    if len(others) != 1 or others[0].startswith("self."):
        raise Untranslatable("loop state of UnitPropagate::decide is not (watch lists, model, one index)")
    idx = others[0]
    allassigned = set(assigned(body))
    inv = [st for st in pre if st[0] == "let" and st[1][0] == "pvar" and st[1][1] not in allassigned]
    for st in pre:
        if st[0] == "let" and st[1][0] == "pvar" and st[1][1] == idx:
            if st[3] != ("num", "0"):
                raise Untranslatable("initial value of the watcher index")
    names = (lname(P), lname(L), lname(idx))
    sp = dict(UPD)
    f = Fn(sp, params, body, {})
    f.kinds[L] = "lit"
    cont = "upLoop cnf fuel wl %s %s %s" % names
    frame = {"label": None, "mode": "fuel", "W": W,
             "continue": lambda fn: cont,
             "break": lambda fn: fn.seq(after, body[2], lambda v: fn.fn_result(v))}
    f.loops = [frame]
    loop_term = f.seq(inv + lp[1], lp[2], lambda v: cont)
    f2 = Fn(dict(UPD, at_loop=lambda fn: "k wl %s %s %s" % names), params, body, {})
    pre_term = f2.seq(pre + [body[1][i]], None, lambda v: "()")
    t1 = ("def upDecideK (k : WL → PModel → Lit → Nat → Option UPOut) (wl : WL) (%s : PModel) (%s : Lit) : Option UPOut :=\n%s"
          % (names[0], names[1], pretty(pre_term)))
    t2 = ("def upLoop (cnf : Cnf) : Nat → WL → PModel → Lit → Nat → Option UPOut\n  | 0, _, _, _, _ => none\n"
          "  | fuel + 1, wl, %s, %s, %s =>\n%s" % (names + (pretty(loop_term),)))
    return t1 + "\n\n/-- the watcher loop of `UnitPropagate::decide`, regenerated -/\n" + t2


def translate(entry, sources, extra):
    key, fname, impl, fn, lean, binders, rty, model, sp = entry
    if key == "UnitPropagate::decide":
        return translate_up_decide(entry, sources[fname])
    if key == "VarSet::eq":
        return translate_varset_eq(entry, sources[fname])
    params, ret, body = find_fn(sources[fname], impl, fn)
    f = Fn(sp, params, body, extra)
    pre = ""
    for fld in f.selfmut:
        fm = sp.get("fields", {})
        if fld not in fm:
            raise Untranslatable("mutated field self.%s has no counterpart in the model" % fld)
        pre += "let self_%s := %s;\n" % (fld, fm[fld].replace("$self", sp.get("self", "self")))
    term = f.seq(body[1], body[2], lambda v: f.fn_result(v))
    if sp.get("top_state") == "wrap" and f.used_top:
        term = "(match s.stack with\n| [] => %s\n| top :: _ => (\n%s))" % (sp.get("panic_val", "none"), term)
    term = pre + sp.get("pre", "") + term
    return "def %s %s : %s :=\n%s" % (lean, binders, rty, pretty(term))




def pretty(term):
    """indent by bracket depth (the output is layout-insensitive: every match / branch is parenthesised)"""
    out, depth = [], 1
    for l in term.split("\n"):
        lead = 0
        for ch in l:
            if ch in ")]}":
                lead += 1
            else:
                break
        out.append("  " * max(depth - lead, 1) + l)
        depth += sum(l.count(c) for c in "([{") - sum(l.count(c) for c in ")]}")
    return "\n".join(out)


def untranslated_alias(entry, why):
    key, fname, impl, fn, lean, binders, rty, model, sp = entry
    if key == "UnitPropagate::decide":
        return ("-- TRANSLATOR ROUTE NOT AVAILABLE for %s (%s): aliases of the hand-written model\n"
                "abbrev upDecideK := @_root_.UnitProp.decideK\nabbrev upLoop (cnf : Cnf) := @_root_.UnitProp.loop cnf true"
                % (key, why.replace("\n", " ")))
    return ("-- TRANSLATOR ROUTE NOT AVAILABLE for %s (%s): alias of the hand-written model\n"
            "abbrev %s := @_root_.%s" % (key, why.replace("\n", " "), lean, model.lstrip("@")))


def write_if_changed(path, text):
    old = open(path).read() if os.path.exists(path) else None
    if old != text:
        open(path, "w").write(text)


def bitfield_table(src):
    """`BITFIELD!(Literal data : u64 [ raw_label set_label[0..63], … ])` -> {getter/setter: (start, end)}"""
    m = re.search(r"BITFIELD!\(\s*Literal\s+data\s*:\s*u64\s*\[(.*?)\]\s*\)\s*;", strip_comments(src), re.S)
    if not m:
        raise Untranslatable("BITFIELD! invocation for Literal not found")
    tbl = {}
    for g, st, a, b in re.findall(r"([a-z_]+)\s+([a-z_]+)\s*\[\s*(\d+)\s*\.\.\s*(\d+)\s*\]", m.group(1)):
        tbl[g] = (int(a), int(b))
        tbl[st] = (int(a), int(b))
    return tbl


def main():
    status = {}
    sources = {}
    for f in ("var_label.rs", "model.rs", "cnf.rs", "unit_prop.rs"):
        try:
            sources[f] = open(os.path.join(REPO, R, f)).read()
        except OSError as e:
            sources[f] = None
    extra = {}
    try:
        extra["bitfield"] = bitfield_table(sources["var_label.rs"] or "")
    except Exception as e:
        extra["bitfield"] = {}
    for g, (a, b) in extra["bitfield"].items():
        if not g.startswith("set_"):
            WORD["methods"][(None, g)] = "bfGet %%s %d %d" % (a, b)
            WORD["methods"][("word", g)] = "bfGet %%s %d %d" % (a, b)
    blocks = []   # [key, namespace, lean text, entry, translated?]
    for entry in FUNCS:
        key, fname, impl, fn, lean, binders, rty, model, sp = entry
        ns = NAMESPACES[sp["flavor"]]
        try:
            if sources[fname] is None:
                raise Untranslatable("cannot read " + fname)
            Fn._fresh = 0
            text = translate(entry, sources, extra)
            if key in DISABLED:
                raise Untranslatable(DISABLED[key])
            blocks.append([key, ns, "/-- `%s` (%s%s), regenerated -/\n%s" % (key, R, fname, text), entry, True])
            status[key] = "translated -> %s.%s (tied to %s)" % (ns, lean, model)
        except Exception as e:  # never crash: per-function fallback
            why = ("%s" % e) if isinstance(e, Untranslatable) else ("internal %s: %s" % (type(e).__name__, e))
            blocks.append([key, ns, untranslated_alias(entry, why), entry, False])
            status[key] = "UNTRANSLATED (translator route not available, tied by correspondence only): %s" % why
    head = ("import RsddModel.Model.CnfUtil\nimport RsddModel.Model.UnitProp\nimport RsddModel.Lemmas.TieCnfUpAux\n"
            "/-!\n# Generated by tools/gen_cnfup.py from the Rust source — do not edit\n\n"
            "`src/repr/{var_label,model,cnf,unit_prop}.rs`, function by function; compared with the hand-written models in\n"
            "`Props/TieCnfUp.lean`.\n-/\nset_option linter.unusedVariables false\n")

    def assemble():
        lines = head.split("\n")
        ranges = []
        for ns, opens in (("Gen.CnfUtil", "open Spec _root_.CnfUtil"), ("Gen.UnitProp", "open Spec _root_.UnitProp")):
            lines += ["", "namespace " + ns, opens, ""]
            for b in blocks:
                if b[1] != ns:
                    continue
                start = len(lines) + 1
                lines += b[2].split("\n")
                ranges.append((start, len(lines), b))
                lines.append("")
            lines += ["end " + ns]
        return "\n".join(lines) + "\n", ranges

    # elaboration guard: a definition that does not elaborate falls back to the alias ("does not elaborate" is
    # UNTRANSLATED; "elaborates and differs from the model" is left to the tie theorem)
    text, ranges = assemble()
    if not os.environ.get("GEN_CNFUP_NOCHECK"):
        import subprocess, tempfile
        for _round in range(6):
            try:
                tmp = tempfile.NamedTemporaryFile("w", suffix=".lean", delete=False, dir=os.path.join(ROOT, "lean"))
                tmp.write(text)
                tmp.close()
                r = subprocess.run(["lake", "env", "lean", tmp.name], cwd=os.path.join(ROOT, "lean"),
                                   capture_output=True, text=True, timeout=600)
                out = r.stdout + r.stderr
            except Exception as e:
                out = ""
                status["(elaboration check)"] = "not run: %s" % e
                break
            finally:
                try:
                    os.unlink(tmp.name)
                except OSError:
                    pass
            bad = {}
            for m in re.finditer(r":(\d+):(\d+): error:? ?(.*)", out):
                ln = int(m.group(1))
                for (a, b, blk) in ranges:
                    if a <= ln <= b and blk[4]:
                        bad.setdefault(blk[0], (blk, m.group(3)[:120]))
            if not bad:
                break
            for key, (blk, msg) in bad.items():
                why = "the translation does not elaborate in Lean (%s)" % msg
                blk[2] = untranslated_alias(blk[3], why)
                blk[4] = False
                status[key] = "UNTRANSLATED (translator route not available, tied by correspondence only): %s" % why
            text, ranges = assemble()
    for key, why in NOT_ATTEMPTED.items():
        status[key] = "UNTRANSLATED (translator route not available, tied by correspondence only): %s" % why
    write_if_changed(OUT, text)
    return status


if __name__ == "__main__":
    st = main()
    for k, v in st.items():
        print(k, "->", v)
