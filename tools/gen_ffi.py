#!/usr/bin/env python3
"""Translator route for the C interface (src/ffi/bdd.rs): regenerates
`lean/RsddModel/Model/GenFfi.lean` from the Rust text on every run; `Props/TieFfi.lean` proves the
regenerated table equal to `Ffi.Call.toOp` and the regenerated accessors equal to `Ffi.bddEq`,
`Ffi.topvar`, `Ffi.low`, `Ffi.high` (Model/Ffi.lean), which the theorems of C18 are about.

Each diagram-building export has the shape

    let builder = robdd_builder_from_ptr(builder);
    let x = builder.OP(<args>);            // args: `*handle`, a label, `VarLabel::new(label)`, a bool
    Box::into_raw(Box::new(x))

and is translated to one arm `| .ctor a b c => Op.OP' …` where the constructor fields are bound, in
order, to the non-builder parameters of the export.  What the translator reads is therefore: WHICH
native operation is called, with WHICH of the C arguments in WHICH positions (dereferenced or not).
A wrapper with any other statement (a fast path, a memo, a conversion) is outside the grammar:
UNTRANSLATED, tied by the three-way ffi stream only.

Mapping table (trusted):
  export (C symbol) ↦ constructor of `Ffi.Call`:  bdd_true ↦ tru, bdd_false ↦ fls, bdd_var ↦ var, bdd_new_var ↦ newVar,
      bdd_negate ↦ neg, bdd_and ↦ and, bdd_or ↦ or, bdd_ite ↦ ite, bdd_compose ↦ compose
  native method ↦ constructor of `Bdd.Op`:  true_ptr ↦ const true, false_ptr ↦ const false, var ↦ var, new_var ↦ newVar (second
      component of the returned pair), negate ↦ neg, and ↦ and, or ↦ or, ite ↦ ite, compose ↦ compose
  `*h` ↦ the handle index `h` (the native program addresses the same pool position); `VarLabel::new(l)` ↦ `l`
"""
import os, re, sys

sys.path.insert(0, os.path.dirname(os.path.abspath(__file__)))
from rustmini import Untranslatable, find_fn, parse_body, parse_params  # noqa: E402

ROOT = os.path.dirname(os.path.dirname(os.path.abspath(__file__)))
REPO = os.environ.get("VERIF_REPO", "/repo")
OUT = os.path.join(ROOT, "lean", "RsddModel", "Model", "GenFfi.lean")

EXPORTS = [  # C symbol, Call constructor, model fallback arm
    ("bdd_true", "tru", ".const true"),
    ("bdd_false", "fls", ".const false"),
    ("bdd_var", "var", None),
    ("bdd_new_var", "newVar", None),
    ("bdd_negate", "neg", None),
    ("bdd_and", "and", None),
    ("bdd_or", "or", None),
    ("bdd_ite", "ite", None),
    ("bdd_compose", "compose", None),
]
NATIVE = {"true_ptr": ".const true", "false_ptr": ".const false", "var": ".var", "new_var": ".newVar", "negate": ".neg",
          "and": ".and", "or": ".or", "ite": ".ite", "compose": ".compose", "xor": ".xor", "iff": ".iff",
          "exists": ".exist", "condition": ".cond"}


def arg(a, params):
    """argument of the native call -> the bound field name"""
    if a[0] == "un" and a[1] == "*" and a[2][0] == "var" and a[2][1] in params:
        return a[2][1]
    if a[0] == "var" and a[1] in params:
        return a[1]
    if a[0] == "call" and a[1] == ("path", ["VarLabel", "new"]) and len(a[2]) == 1:
        return arg(a[2][0], params)
    if a[0] == "cast":
        return arg(a[1], params)
    raise Untranslatable("argument %r" % (a,))


def wrapper(src, sym):
    ps, body = find_fn(src, sym)
    params = [p for p in parse_params(ps)]
    if not params or params[0] != "builder":
        raise Untranslatable("first parameter is not the builder")
    fields = params[1:]
    ast = parse_body(body)
    stmts, tail = ast[1], ast[2]
    if len(stmts) != 2 or tail is None:
        raise Untranslatable("wrapper has %d statements (expected 2: fetch the builder, call the operation)" % len(stmts))
    s0, s1 = stmts
    if not (s0[0] == "let" and s0[1] == ("pvar", "builder") and s0[3][0] == "call"
            and s0[3][1] == ("var", "robdd_builder_from_ptr") and s0[3][2] == [("var", "builder")]):
        raise Untranslatable("first statement is not `let builder = robdd_builder_from_ptr(builder)`")
    if s1[0] != "let":
        raise Untranslatable("second statement is not a let")
    pat, call = s1[1], s1[3]
    if not (call[0] == "mcall" and call[1] == ("var", "builder") and call[2] in NATIVE):
        raise Untranslatable("second statement does not call a known builder operation")
    if pat[0] == "pvar":
        res = pat[1]
        if call[2] == "new_var":
            raise Untranslatable("new_var result is not destructured")
    elif pat[0] == "ptuple" and len(pat[1]) == 2 and pat[1][0] == ("pwild",) and pat[1][1][0] == "pvar" and call[2] == "new_var":
        res = pat[1][1][1]
    else:
        raise Untranslatable("result pattern")
    # Box::into_raw(Box::new(res))
    ok = (tail[0] == "call" and tail[1] == ("path", ["Box", "into_raw"]) and len(tail[2]) == 1 and tail[2][0][0] == "call"
          and tail[2][0][1] == ("path", ["Box", "new"]) and tail[2][0][2] == [("var", res)])
    if not ok:
        raise Untranslatable("the wrapper does not return a fresh box of the operation's result")
    args = [arg(a, fields) for a in call[3]]
    return fields, NATIVE[call[2]], args


def accessor(src, sym):
    """bdd_eq / bdd_topvar / bdd_low / bdd_high: the returned Lean body over `p` (`q`)"""
    ps, body = find_fn(src, sym)
    params = parse_params(ps)
    ast = parse_body(body)
    if sym == "bdd_eq":
        stmts, tail = ast[1], ast[2]
        if len(stmts) != 1 or tail is None or not (tail[0] == "mcall" and tail[1] == ("var", "builder") and tail[2] == "eq"):
            raise Untranslatable("bdd_eq shape")
        a = [arg(x, params[1:]) for x in tail[3]]
        if len(a) != 2:
            raise Untranslatable("bdd_eq arity")
        names = dict(zip(params[1:], ["p", "q"]))
        return "decide (%s = %s)" % (names[a[0]], names[a[1]])
    if ast[1] or ast[2] is None:
        raise Untranslatable("accessor with statements")
    t = ast[2]
    deref = ("un", "*", ("var", params[0]))
    if sym == "bdd_topvar":
        if not (t[0] == "match" and t[1] == ("mcall", deref, "var_safe", []) and len(t[2]) == 2):
            raise Untranslatable("bdd_topvar shape")
        arms = {}
        for pat, guard, e in t[2]:
            if guard is not None:
                raise Untranslatable("guard")
            if pat[0] == "pctor" and pat[1] == ["Some"] and len(pat[2]) == 1 and pat[2][0][0] == "pvar":
                x = pat[2][0][1]
                if e == ("mcall", ("var", x), "value", []) or e == ("var", x):
                    arms["some"] = "v"
                else:
                    raise Untranslatable("Some arm")
            elif pat[0] == "pctor" and pat[1] == ["None"]:
                if e[0] != "num":
                    raise Untranslatable("None arm")
                arms["none"] = e[1]
            else:
                raise Untranslatable("pattern")
        return "match p.top? with | some v => %s | none => %s" % (arms["some"], arms["none"])
    if sym in ("bdd_low", "bdd_high"):
        ok = (t[0] == "call" and t[1] == ("path", ["Box", "into_raw"]) and t[2][0][0] == "call"
              and t[2][0][1] == ("path", ["Box", "new"]) and len(t[2][0][2]) == 1)
        if not ok:
            raise Untranslatable("shape")
        inner = t[2][0][2][0]
        if inner[0] == "mcall" and inner[1] == deref and inner[2] in ("low", "high", "low_raw", "high_raw") and not inner[3]:
            return {"low": "Gen.Ffi.ptrLow p", "high": "Gen.Ffi.ptrHigh p", "low_raw": "Gen.Ffi.ptrLowRaw p", "high_raw": "Gen.Ffi.ptrHighRaw p"}[inner[2]]
        raise Untranslatable("inner call")
    raise Untranslatable(sym)


HEADER = """import RsddModel.Model.Ffi
/-!
# Generated by tools/gen_ffi.py from src/ffi/bdd.rs — do not edit

Compared with the hand-written model (`Ffi.Call.toOp`, `Ffi.bddEq`, `Ffi.topvar`, `Ffi.low`, `Ffi.high`)
in `Props/TieFfi.lean`.
-/
namespace Gen.Ffi
open _root_.Bdd

/-- `BddPtr::low()` / `high()` / `low_raw()` / `high_raw()` on the tree model (`none` = the Rust panics) -/
def ptrLow : Ptr → Option Ptr | .node c _ lo _ => some (if c then lo.neg else lo) | _ => none
def ptrHigh : Ptr → Option Ptr | .node c _ _ hi => some (if c then hi.neg else hi) | _ => none
def ptrLowRaw : Ptr → Option Ptr | .node _ _ lo _ => some lo | _ => none
def ptrHighRaw : Ptr → Option Ptr | .node _ _ _ hi => some hi | _ => none

"""

CTOR_FIELDS = {"tru": 0, "fls": 0, "var": 2, "newVar": 1, "neg": 1, "and": 2, "or": 2, "ite": 3, "compose": 3}


def write_if_changed(path, text):
    old = open(path).read() if os.path.exists(path) else None
    if old != text:
        open(path, "w").write(text)


def main():
    status, arms = {}, []
    try:
        src = open(os.path.join(REPO, "src/ffi/bdd.rs")).read()
        err = None
    except OSError as e:
        src, err = None, str(e)
    for sym, ctor, _ in EXPORTS:
        try:
            if src is None:
                raise Untranslatable(err)
            fields, op, args = wrapper(src, sym)
            if len(fields) != CTOR_FIELDS[ctor]:
                raise Untranslatable("%d C arguments besides the builder (the model's call has %d)" % (len(fields), CTOR_FIELDS[ctor]))
            arms.append("  | .%s%s => Op%s%s" % (ctor, "".join(" " + f for f in fields), op, "".join(" " + a for a in args)))
            status[sym] = "translated"
        except (Untranslatable, KeyError, IndexError, ValueError, TypeError) as e:
            names = ["a", "b", "c"][:CTOR_FIELDS[ctor]]
            arms.append("  | .%s%s => (Ffi.Call.%s%s).toOp  -- TRANSLATOR ROUTE NOT AVAILABLE: %s"
                        % (ctor, "".join(" " + n for n in names), ctor, "".join(" " + n for n in names), str(e).replace("\n", " ")))
            status[sym] = "UNTRANSLATED (translator route not available, tied by correspondence only): %s" % e
    text = HEADER + "/-- the native operation each diagram-building export performs -/\ndef toOp : _root_.Ffi.Call → Op\n" + "\n".join(arms) + "\n\n"
    for sym, lean, binder, ty, model in [
        ("bdd_eq", "bddEq", "(p q : Ptr)", "Bool", "_root_.Ffi.bddEq p q"),
        ("bdd_topvar", "topvar", "(p : Ptr)", "Nat", "_root_.Ffi.topvar p"),
        ("bdd_low", "low", "(p : Ptr)", "Option Ptr", "_root_.Ffi.low p"),
        ("bdd_high", "high", "(p : Ptr)", "Option Ptr", "_root_.Ffi.high p"),
    ]:
        try:
            if src is None:
                raise Untranslatable(err)
            body = accessor(src, sym)
            text += "def %s %s : %s := %s\n" % (lean, binder, ty, body)
            status[sym] = "translated"
        except (Untranslatable, KeyError, IndexError, ValueError, TypeError) as e:
            text += "-- TRANSLATOR ROUTE NOT AVAILABLE for %s: %s\ndef %s %s : %s := %s\n" % (sym, str(e).replace("\n", " "), lean, binder, ty, model)
            status[sym] = "UNTRANSLATED (translator route not available, tied by correspondence only): %s" % e
    write_if_changed(OUT, text + "\nend Gen.Ffi\n")
    return status


if __name__ == "__main__":
    for k, v in main().items():
        print(k, "->", v)
