#!/usr/bin/env python3
"""Translator route for the optimisation queries and the loop-carrying semiring operations.

Regenerates `lean/RsddModel/Model/GenOptim.lean` from the Rust text on every run;
`Props/TieOptim.lean` proves the regenerated definitions equal to the hand-written model
(`Optim.*` of Model/Optim.lean, `Sem.ffMul`, `Sem.poly*` of Model/Semirings.lean).

Translated (each function on its own, with its own fallback):
  src/repr/bdd.rs      marginal_map_eval, marginal_map_h, marginal_map, eu_ub, meu_h, meu,
                       bb_ub, bb_h, bb
  src/util/semirings/finitefield.rs                         Mul::mul (with its `while` loop)
  src/util/semirings/polynomial_semiring_implementation.rs  zero, one, Add::add, Mul::mul

Method: the body is parsed (tools/rustmini_optim.py) and *symbolically executed*: an environment
maps every Rust local to a typed Lean term; `let` substitutes, assignment updates the environment,
an `if` statement that assigns merges the two environments into `if c then … else …` (jointly,
as a tuple, when several locals are assigned), `for x in it { … }` becomes
`List.foldl (fun state x => …) state it` over the locals the body assigns, `while` becomes a
generated fuel-recursive definition over the locals the body assigns, early `return` becomes the
`then` branch of an `if` whose `else` branch is the rest of the block, `match` on an `Option`
is compiled case by case (`none`, `some true`, `some false` / `some v`), the guards of the arms
covering a case forming an `if` chain in source order.  Closure parameters and loop variables
get fresh names (`name_k`), so substitution cannot capture.

Mapping table (TRUSTED; everything else comes from the source text):
  types   VarLabel, usize, u128 ↦ Nat      f64, RealSemiring ↦ Rat  (`RealSemiring(e)` and `e.0` are identities)
          ExpectedUtility ↦ Sem.EU (`.0 ↦ .p`, `.1 ↦ .u`, `ExpectedUtility(a, b) ↦ Sem.EU.mk a b`)
          T: BBSemiring ↦ α with `B : Optim.BBOps α`     C: Semiring ↦ α with `S : SROps α`
          PartialModel ↦ Optim.PM     BitSet, &[VarLabel], Vec, arrays ↦ List     Literal ↦ Nat × Bool
          BddPtr (self) ↦ the tree `p : Bdd.Ptr`     WmcParams<T> ↦ `Spec.Weights T` (a function)
          FiniteField<P> ↦ Nat (`.v` identity)    Polynomial<C> ↦ Sem.Poly α   MAX_COEFFS ↦ maxCoeffs
  self.bdd_fold(&|v, l, h| e, lo, hi) ↦ Optim.bddFold (fun v l h => e) lo hi p false   (tree-level fold; the memo is C10's subject)
  wmc.var_weight(x) ↦ wmc x        wmc.zero / wmc.one ↦ zero / one of the weight type
  m.get(x) ↦ PM.get m x    m.set(x, b); ↦ m := PM.set m x b    m.clone() ↦ m    m.assignment_iter() ↦ PM.assignmentIter m
  PartialModel::from_litvec(v, n) ↦ PM.fromLitvec v n       Literal::new(x, b) ↦ (x, b)   l.label() ↦ l.1   l.polarity() ↦ l.2
  BitSet::new() ↦ []    BitSet::from_iter(it) ↦ it    s.contains(i) ↦ List.contains s i    x.value_usize() ↦ x
  .iter() .into_iter() .collect() .copied() .cloned() & * ↦ identity    .map(|x| e) ↦ List.map (dropped when e is x itself)    .take(n) ↦ List.take
  it.fold(a, |acc, x| e) ↦ List.foldl (fun acc x => e) a it      0..n ↦ List.range n      a..b ↦ List.range' a (b - a)
  + * - on Rat/Nat ↦ + * -     on EU ↦ Sem.euAdd / euMul / euSub     on α ↦ B.add / B.mul (S.add / S.mul)
  f64::max / min, a.max(b) / a.min(b) ↦ max / min      a.saturating_sub(b) ↦ a - b (Nat)
  T::one() / T::zero() / C::one() / C::zero() ↦ B.one / B.zero / S.one / S.zero
  JoinSemilattice::join(&a, &b) ↦ B.join a b   BBSemiring::choose(&a, &b) ↦ B.choose a b   PartialOrd::le(&a, &b) ↦ B.le a b
  a == b on α ↦ B.beq a b;  comparisons on Nat / Rat ↦ the propositions a = b, a < b, …;  a != b ↦ a ≠ b
  a.checked_mul(b) (u128) ↦ Sem.cmul a b      + % & >> on u128 ↦ + % &&& >>> on Nat (unchecked, as the model reads them)
  a * b, a.wrapping_mul(b) on u128 ↦ (a * b) % 2 ^ 128 (wrapping, as `Sem.ffMulOrig` reads the release build)
  a.leading_zeros() on u128 ↦ 128 - (if a = 0 then 0 else Nat.log2 a + 1)
  FiniteField::new(e) ↦ Sem.ffNew P e (tied to the source by TieFF.ff_new)     FiniteField { v: e } ↦ e
  `while` over u128 locals ↦ fuel recursion started with fuel 128 (the number of bits of a u128, as `Sem.ffMul` does)
  a[i] (read) ↦ List.getD a i zero     a[i] = e ↦ a := List.set a i e     [e; n] ↦ List.replicate n e
  Self::zero() in `Polynomial` ↦ the generated polyZero
  calls of one translated function from another ↦ the generated definition of the callee
"""
import os, re, sys

sys.path.insert(0, os.path.dirname(os.path.abspath(__file__)))
from rustmini_optim import Untranslatable, find_fn, parse_body, parse_params_typed  # noqa: E402

ROOT = os.path.dirname(os.path.dirname(os.path.abspath(__file__)))
REPO = os.environ.get("VERIF_REPO", "/repo")
OUT = os.path.join(ROOT, "lean", "RsddModel", "Model", "GenOptim.lean")

LEAN_KEYWORDS = {"end", "from", "at", "in", "fun", "open", "do", "then", "else", "if", "let", "have", "show", "with",
                 "match", "def", "theorem", "namespace", "section", "variable", "by", "where", "instance", "structure",
                 "class", "import", "private", "protected", "mutual", "deriving", "extends", "for", "return", "using",
                 "Type", "Prop", "Sort", "set_option", "local", "prefix", "infix", "notation", "macro", "syntax",
                 "universe", "example", "axiom", "abbrev", "inductive", "calc", "nomatch", "suffices", "obtain", "rec"}

NAT, RAT, EU, TT, BOOL, PROP, PM, PTR, WMC, FF, POLY, UNIT, CX = "nat", "rat", "eu", "T", "bool", "prop", "pm", "ptr", "wmc", "ff", "poly", "unit", "cx"
REALT = "real"      # only as `Ctx.self_type`: the Rust type RealSemiring (its values are `Rat`)
LIT = ("tuple", (NAT, BOOL))


def tup(*ts):
    return ("tuple", tuple(ts))


def lst(t):
    return ("list", t)


def opt(t):
    return ("opt", t)


class V:
    """typed symbolic value: Lean term text, type, and (for the eta peephole) `proj = (base, i, n)`"""

    def __init__(self, s, ty, proj=None, items=None, closure=None, static=False):
        self.s, self.ty, self.proj, self.items, self.closure = s, ty, proj, items, closure
        self.static = static      # a fixed-size Rust array `[C; N]` (its length is static in Rust, not in the model's list)


def balanced(s):
    d = 0
    for ch in s:
        if ch in "([{⟨":
            d += 1
        elif ch in ")]}⟩":
            d -= 1
            if d < 0:
                return False
    return d == 0


def paren(s):
    if re.match(r"^[A-Za-z0-9_.'α]+$", s):
        return s
    if s[0] == "(" and s[-1] == ")" and balanced(s[1:-1]):
        return s
    if s[0] == "[" and s[-1] == "]" and balanced(s[1:-1]):
        return s
    return "(" + s + ")"


def ap(f, *args):
    return f + "".join(" " + paren(a) for a in args)


class Ctx:
    def __init__(self, sem=None, ops=None, consts=None, self_v=None, loop_name=None, self_type=None):
        self.sem, self.ops = sem, ops
        self.self_type = self_type      # what `Self` names in an `impl … for ExpectedUtility / Complex / RealSemiring`
        self.consts = consts or {}
        self.self_v = self_v
        self.n = 0
        self.loop_name = loop_name
        self.aux = []          # generated auxiliary definitions (while loops)
        self.mut_params = []   # `&mut` parameters: threaded as state, returned next to the result
        self.ret_ty = None     # type of the function result (with the state of the `&mut` parameters)
        self.lp = []           # enclosing `for` loops: {"ret": the loop carries an early-return slot}
        self.new_state = []    # state the model has no counterpart for (reported as DIFFERS)
        self.memo_dirty = False
        self.src = None
        self.cur_fn = None
        self.depth = 0

    def fresh(self, base):
        self.n += 1
        base = re.sub(r"[^A-Za-z0-9_]", "", base) or "x"
        return "%s_%d" % (base, self.n)

    def lean_ty(self, t):
        if t == NAT or t == FF:
            return "Nat"
        if t == RAT:
            return "Rat"
        if t == EU:
            return "_root_.Sem.EU"
        if t == CX:
            return "_root_.Sem.Cx"
        if t == TT:
            return "α"
        if t == BOOL:
            return "Bool"
        if t == PM:
            return "_root_.Optim.PM"
        if t == POLY:
            return "_root_.Sem.Poly α"
        if isinstance(t, tuple) and t[0] == "tuple":
            return "(" + " × ".join(self.lean_ty(x) for x in t[1]) + ")"
        if isinstance(t, tuple) and t[0] == "list" and t[1] is not None:
            return "List " + paren(self.lean_ty(t[1]))
        if isinstance(t, tuple) and t[0] == "opt":
            return "Option " + paren(self.lean_ty(t[1]))
        raise Untranslatable("no Lean type for %r" % (t,))

    def zero(self, t):
        if t == NAT:
            return V("0", NAT)
        if t == RAT:
            return V("(0 : Rat)", RAT)
        if t == EU:
            return V("_root_.Sem.euZero", EU)
        if t == TT and self.ops:
            return V(self.ops + ".zero", TT)
        raise Untranslatable("zero of %r" % (t,))

    def one(self, t):
        if t == NAT:
            return V("1", NAT)
        if t == RAT:
            return V("(1 : Rat)", RAT)
        if t == EU:
            return V("_root_.Sem.euOne", EU)
        if t == TT and self.ops:
            return V(self.ops + ".one", TT)
        raise Untranslatable("one of %r" % (t,))


# ------------------------------------------------------------------ value helpers
def proj(v, i):
    if v.ty[0] != "tuple":
        raise Untranslatable("projection of a non-tuple")
    n = len(v.ty[1])
    if i >= n:
        raise Untranslatable("tuple index out of range")
    if v.items is not None:
        return v.items[i]
    if n == 1:
        return V(v.s, v.ty[1][0])
    suffix = ".2" * i + (".1" if i < n - 1 else "")
    return V(paren(v.s) + suffix, v.ty[1][i], proj=(v, i, n))


def mk_tuple(vs):
    """Lean tuple of the values; `(e.1, e.2)` is written `e` (structure eta, definitional)"""
    if len(vs) == 1:
        return vs[0]
    vs = [to_bool(v) for v in vs]
    base = vs[0].proj[0] if vs[0].proj else None
    if base is not None and all(v.proj and v.proj[0] is base and v.proj[1] == k and v.proj[2] == len(vs) for k, v in enumerate(vs)):
        return base
    return V("(" + ", ".join(v.s for v in vs) + ")", tup(*[v.ty for v in vs]), items=list(vs))


def to_bool(v):
    if v.ty == PROP:
        return V("decide " + paren(v.s), BOOL)
    return v


def as_cond(v):
    if v.ty not in (PROP, BOOL):
        raise Untranslatable("condition of type %r" % (v.ty,))
    return v.s


def same_ty(a, b):
    if a == b:
        return True
    if isinstance(a, tuple) and isinstance(b, tuple) and a[0] == b[0]:
        if a[0] == "list" or a[0] == "opt":
            return a[1] is None or b[1] is None or same_ty(a[1], b[1])
        return len(a[1]) == len(b[1]) and all(same_ty(x, y) for x, y in zip(a[1], b[1]))
    return False


def ite(c, a, b):
    if a.ty != b.ty and {a.ty, b.ty} == {PROP, BOOL}:
        a, b = to_bool(a), to_bool(b)
    if not same_ty(a.ty, b.ty):
        raise Untranslatable("branches of different types %r / %r" % (a.ty, b.ty))
    if a.s == b.s:
        return a
    ty = a.ty if not (isinstance(a.ty, tuple) and a.ty[1] is None) else b.ty
    return V("if %s then %s else %s" % (as_cond(c), a.s, b.s), ty)


# ------------------------------------------------------------------ expressions
class Differs(Exception):
    """the whole body was read; the only obstacle is state / parameters the model has no counterpart for"""

    def __init__(self, msg, extra=""):
        Exception.__init__(self, msg)
        self.extra = extra


CUR_MUT_PARAMS = []      # `&mut` parameters of the function being translated (a call that passes one on assigns it)


def strip_ref(e):
    while e[0] == "un" and e[1] in ("&", "&mut", "*"):
        e = e[2]
    return e


def binop(op, a, b, cx):
    if op in ("&&", "||"):
        if a.ty == BOOL and b.ty == BOOL:
            return V("%s %s %s" % (paren(a.s), op, paren(b.s)), BOOL)
        if a.ty in (BOOL, PROP) and b.ty in (BOOL, PROP):
            pa = a.s if a.ty == PROP else "%s = true" % paren(a.s)
            pb = b.s if b.ty == PROP else "%s = true" % paren(b.s)
            return V("%s %s %s" % (paren(pa), "∧" if op == "&&" else "∨", paren(pb)), PROP)
        raise Untranslatable("logical operator on %r, %r" % (a.ty, b.ty))
    ta, tb = (NAT if a.ty == FF else a.ty), (NAT if b.ty == FF else b.ty)
    if ta != tb:
        raise Untranslatable("operator %s on %r and %r" % (op, a.ty, b.ty))
    t = ta
    if op in ("+", "*", "-"):
        if t == NAT and op == "*" and cx.loop_name is not None:     # u128 `*`: wrapping, as `Sem.ffMulOrig` reads it
            return V("(%s * %s) %% 2 ^ 128" % (paren(a.s), paren(b.s)), NAT)
        if t in (NAT, RAT):
            return V("%s %s %s" % (paren(a.s), op, paren(b.s)), t)
        if t == EU:
            return V(ap("_root_.Sem." + {"+": "euAdd", "*": "euMul", "-": "euSub"}[op], a.s, b.s), EU)
        if t == CX:
            return V(ap("_root_.Sem." + {"+": "cxAdd", "*": "cxMul", "-": "cxSub"}[op], a.s, b.s), CX)
        if t == TT and cx.ops and op in ("+", "*"):
            return V(ap(cx.ops + (".add" if op == "+" else ".mul"), a.s, b.s), TT)
        raise Untranslatable("operator %s on %r" % (op, t))
    if op in ("%", "/", "&", ">>", "<<", "|", "^"):
        if t != NAT:
            raise Untranslatable("operator %s on %r" % (op, t))
        if op == "<<" and cx.loop_name is not None:               # u128 `<<` drops the bits shifted out
            return V("(%s <<< %s) %% 2 ^ 128" % (paren(a.s), paren(b.s)), NAT)
        if op in ("|", "^"):
            return V("%s %s %s" % (paren(a.s), {"|": "|||", "^": "^^^"}[op], paren(b.s)), NAT)
        return V("%s %s %s" % (paren(a.s), {"%": "%", "/": "/", "&": "&&&", ">>": ">>>", "<<": "<<<"}[op], paren(b.s)), NAT)
    if op in ("==", "!="):
        if t == TT:
            if not cx.ops or cx.ops != "B":
                raise Untranslatable("== on the generic weight type")
            e = ap("B.beq", a.s, b.s)
            return V(e if op == "==" else "!" + paren(e), BOOL)
        if t in (NAT, RAT, EU, CX, PM, BOOL) or isinstance(t, tuple):
            return V("%s %s %s" % (paren(a.s), "=" if op == "==" else "≠", paren(b.s)), PROP)
        raise Untranslatable("== on %r" % (t,))
    if op in ("<", "<=", ">", ">="):
        if t in (NAT, RAT):
            return V("%s %s %s" % (paren(a.s), {"<": "<", "<=": "≤", ">": ">", ">=": "≥"}[op], paren(b.s)), PROP)
        raise Untranslatable("comparison %s on %r" % (op, t))
    raise Untranslatable("operator " + op)


def closure_of(e, n, env=None):
    """the closure AST of an argument: a literal closure, or a local bound to one (its body then sees
    the environment of its definition: captured locals are immutable in the accepted grammar)"""
    e = strip_ref(e)
    if e[0] == "var" and env is not None and e[1] in env and env[e[1]].closure is not None:
        e = env[e[1]].closure[0]
    if e[0] != "closure" or len(e[1]) != n:
        raise Untranslatable("expected a closure with %d parameters" % n)
    return e


def bind_pattern(pat, v, env, cx):
    k = pat[0]
    if k == "pwild":
        return
    if k == "pref":
        return bind_pattern(pat[1], v, env, cx)
    if k == "pvar":
        env[pat[1]] = v
        return
    if k == "ptuple":
        if v.ty[0] != "tuple" or len(v.ty[1]) != len(pat[1]):
            raise Untranslatable("tuple pattern against %r" % (v.ty,))
        for i, p in enumerate(pat[1]):
            bind_pattern(p, proj(v, i), env, cx)
        return
    if k == "pstruct" and pat[1] in (["Complex"], ["Self"]) and v.ty == CX:
        for f, sub in pat[2]:
            if f not in ("re", "im"):
                raise Untranslatable("field %s of Complex" % f)
            bind_pattern(sub, V(paren(v.s) + "." + f, RAT), env, cx)
        return
    if k == "pctor" and pat[1] == ["Self"] and cx.self_type in (EU, REALT):
        return bind_pattern(("pctor", ["ExpectedUtility" if cx.self_type == EU else "RealSemiring"], pat[2]), v, env, cx)
    if k == "pctor" and pat[1] == ["RealSemiring"] and len(pat[2]) == 1 and v.ty == RAT:
        return bind_pattern(pat[2][0], v, env, cx)
    if k == "pctor" and pat[1] == ["ExpectedUtility"] and len(pat[2]) == 2 and v.ty == EU:
        bind_pattern(pat[2][0], V(paren(v.s) + ".p", RAT), env, cx)
        bind_pattern(pat[2][1], V(paren(v.s) + ".u", RAT), env, cx)
        return
    raise Untranslatable("pattern %r" % (k,))


def lam(cx, env, pats_types, body_fn):
    """fresh-named Lean lambda over the closure parameters; body_fn(env') -> V"""
    sub = dict(env)
    names = []
    for pat, ty in pats_types:
        hint = pat[1] if pat[0] == "pvar" else "t"
        nm = cx.fresh(hint)
        names.append("(%s : %s)" % (nm, cx.lean_ty(ty)))
        bind_pattern(pat, V(nm, ty), sub, cx)
    body = body_fn(sub)
    return "fun %s => %s" % (" ".join(names), body.s), body


def ev(e, env, cx):
    k = e[0]
    if k == "num":
        if "." in e[1]:
            if not re.match(r"^\d+\.0*$", e[1]):
                raise Untranslatable("non-integral literal")
            return V("(%s : Rat)" % e[1].split(".")[0], RAT)
        return V(e[1], NAT)
    if k == "bool":
        return V("true" if e[1] else "false", BOOL)
    if k == "var":
        nm = e[1]
        if nm in env:
            return env[nm]
        if nm in cx.consts:
            return cx.consts[nm]
        if nm == "self" and cx.self_v is not None:
            return cx.self_v
        if nm == "None":
            return V("none", opt(None))
        raise Untranslatable("unknown local %r" % nm)
    if k == "un":
        if e[1] in ("&", "&mut", "*"):
            return ev(e[2], env, cx)
        if e[1] == "!":
            a = ev(e[2], env, cx)
            if a.ty == BOOL:
                return V("!" + paren(a.s), BOOL)
            if a.ty == PROP:
                return V("¬ " + paren(a.s), PROP)
            raise Untranslatable("! on %r" % (a.ty,))
        raise Untranslatable("unary " + e[1])
    if k == "cast":
        a = ev(e[1], env, cx)
        if a.ty == NAT and e[2].strip() in ("usize", "u64", "u128"):
            return a
        raise Untranslatable("cast to " + e[2])
    if k == "bin":
        if e[1] in ("..", "..="):
            if e[3] is None or e[1] == "..=":
                raise Untranslatable("range form")
            lo, hi = ev(e[2], env, cx), ev(e[3], env, cx)
            if lo.ty != NAT or hi.ty != NAT:
                raise Untranslatable("range bounds")
            if lo.s == "0":
                return V(ap("List.range", hi.s), lst(NAT))
            return V(ap("List.range'", lo.s, "%s - %s" % (paren(hi.s), paren(lo.s))), lst(NAT))
        return binop(e[1], ev(e[2], env, cx), ev(e[3], env, cx), cx)
    if k == "tuple":
        return mk_tuple([ev(x, env, cx) for x in e[1]])
    if k == "array":
        vs = [to_bool(ev(x, env, cx)) for x in e[1]]
        if not vs:
            return V("[]", lst(None))
        for v in vs[1:]:
            if not same_ty(v.ty, vs[0].ty):
                raise Untranslatable("array of mixed types")
        return V("[" + ", ".join(v.s for v in vs) + "]", lst(vs[0].ty))
    if k == "repeat":
        c, n = ev(e[1], env, cx), ev(e[2], env, cx)
        if n.ty != NAT:
            raise Untranslatable("array length")
        return V(ap("List.replicate", n.s, c.s), lst(c.ty), static=True)
    if k == "field":
        return field(ev(e[1], env, cx), e[2], cx)
    if k == "index":
        a, i = ev(e[1], env, cx), ev(e[2], env, cx)
        if a.ty[0] != "list" or i.ty != NAT:
            raise Untranslatable("index of %r" % (a.ty,))
        return V(ap("List.getD", a.s, i.s, cx.zero(a.ty[1]).s), a.ty[1])
    if k == "if":
        c = ev(e[1], env, cx)
        if e[3] is None:
            raise Untranslatable("if without else in expression position")
        t = ev(e[2], env, cx)
        f = ev(e[3], env, cx)
        return ite(c, t, f)
    if k == "block":
        hit = [n for n in assigned(e, []) if n in env]
        if hit:      # the value would be translated but the effect on the outer local lost
            raise Untranslatable("block in expression position assigns the outer local " + hit[0])
        return eval_block(e[1], e[2], dict(env), cx)
    if k == "match":
        return ev_match(e, env, cx)
    if k == "iflet":
        if e[4] is None:
            raise Untranslatable("if let without else in expression position")
        return ev_match(("match", e[2], [(e[1], None, e[3]), (("pwild",), None, e[4])]), env, cx)
    if k == "closure":
        return V("<closure>", "closure", closure=(e, dict(env)))
    if k == "call":
        return ev_call(e, env, cx)
    if k == "mcall":
        return ev_mcall(e, env, cx)
    if k == "struct":
        return ev_struct(e, env, cx)
    raise Untranslatable("expression kind " + k)


def field(a, name, cx):
    t = a.ty
    if isinstance(t, tuple) and t[0] == "tuple" and name.isdigit():
        return proj(a, int(name))
    if t == RAT and name == "0":
        return a
    if t == EU and name in ("0", "1"):
        return V(paren(a.s) + (".p" if name == "0" else ".u"), RAT)
    if t == CX and name in ("re", "im"):
        return V(paren(a.s) + "." + name, RAT)
    if t == FF and name == "v":
        return V(a.s, NAT)
    if t == POLY and name == "coefficients":
        return V(paren(a.s) + ".coeffs", lst(TT), static=True)
    if t == POLY and name == "len":
        return V(paren(a.s) + ".len", NAT)
    if t == WMC and name == "zero":
        return cx.zero(cx.sem)
    if t == WMC and name == "one":
        return cx.one(cx.sem)
    raise Untranslatable("field .%s of %r" % (name, t))


def ev_struct(e, env, cx):
    fs = dict(e[2])
    if len(fs) != len(e[2]):
        raise Untranslatable("duplicate field")
    if e[1] in ("FiniteField", "Self") and cx.self_v is not None and cx.self_v.ty == FF:
        if set(fs) != {"v"}:
            raise Untranslatable("FiniteField literal fields")
        v = ev(fs["v"], env, cx)
        if v.ty != NAT:
            raise Untranslatable("FiniteField literal value")
        return V(v.s, FF)
    if (e[1] == "Complex" or (e[1] == "Self" and cx.self_type == CX)):
        if set(fs) != {"re", "im"}:
            raise Untranslatable("Complex literal fields")
        a, b = ev(fs["re"], env, cx), ev(fs["im"], env, cx)
        if a.ty != RAT or b.ty != RAT:
            raise Untranslatable("Complex literal components")
        return V(ap("_root_.Sem.Cx.mk", a.s, b.s), CX)
    if e[1] in ("Polynomial", "Self") and cx.self_v is not None and cx.self_v.ty == POLY or (e[1] == "Polynomial" and cx.ops == "S"):
        if set(fs) != {"coefficients", "len"}:
            raise Untranslatable("Polynomial literal fields")
        c, n = ev(fs["coefficients"], env, cx), ev(fs["len"], env, cx)
        if not same_ty(c.ty, lst(TT)) or n.ty != NAT:
            raise Untranslatable("Polynomial literal types")
        return V("({ coeffs := %s, len := %s } : _root_.Sem.Poly α)" % (c.s, n.s), POLY)
    raise Untranslatable("struct literal " + e[1])


def ev_call(e, env, cx):
    f, args = e[1], e[2]
    path = [f[1]] if f[0] == "var" else (f[1] if f[0] == "path" else None)
    if path is None:
        raise Untranslatable("call of a computed function")
    av = lambda i: ev(args[i], env, cx)  # noqa: E731
    if len(path) == 1 and path[0] in env and env[path[0]].closure is not None:
        cl, cenv = env[path[0]].closure
        if len(cl[1]) != len(args):
            raise Untranslatable("arity of the closure " + path[0])
        sub = dict(cenv)
        for pat, i in zip(cl[1], range(len(args))):
            bind_pattern(pat, to_bool(av(i)), sub, cx)
        return ev(cl[2], sub, cx)
    if path == ["Self"] and cx.self_type in (EU, REALT):
        path = ["ExpectedUtility"] if cx.self_type == EU else ["RealSemiring"]
    if len(path) == 2 and path[1] in ("zero", "one") and not args:
        tname = {EU: "ExpectedUtility", CX: "Complex", REALT: "RealSemiring"}.get(cx.self_type) if path[0] == "Self" else path[0]
        consts = {"ExpectedUtility": ("_root_.Sem.euZero", "_root_.Sem.euOne", EU), "Complex": ("_root_.Sem.cxZero", "_root_.Sem.cxOne", CX),
                  "RealSemiring": ("(0 : Rat)", "(1 : Rat)", RAT)}
        if tname in consts:
            z, o, ty = consts[tname]
            return V(z if path[1] == "zero" else o, ty)
    if path == ["Some"] and len(args) == 1:
        a = to_bool(av(0))
        return V(ap("some", a.s), opt(a.ty))
    if path == ["RealSemiring"] and len(args) == 1:
        a = av(0)
        if a.ty != RAT:
            raise Untranslatable("RealSemiring(_) of %r" % (a.ty,))
        return a
    if path == ["ExpectedUtility"] and len(args) == 2:
        a, b = av(0), av(1)
        if a.ty != RAT or b.ty != RAT:
            raise Untranslatable("ExpectedUtility(_, _) components")
        return V(ap("_root_.Sem.EU.mk", a.s, b.s), EU)
    if path in (["f64", "max"], ["f64", "min"]) and len(args) == 2:
        a, b = av(0), av(1)
        if a.ty != RAT or b.ty != RAT:
            raise Untranslatable("f64::max of %r" % (a.ty,))
        return V(ap(path[1], a.s, b.s), RAT)
    if path == ["BitSet", "new"] and not args:
        return V("([] : List Nat)", lst(NAT))
    if path == ["BitSet", "from_iter"] and len(args) == 1:
        a = av(0)
        if not same_ty(a.ty, lst(NAT)):
            raise Untranslatable("BitSet::from_iter of %r" % (a.ty,))
        return V(a.s, lst(NAT))
    if path == ["PartialModel", "from_litvec"] and len(args) == 2:
        a, n = av(0), av(1)
        if not same_ty(a.ty, lst(LIT)) or n.ty != NAT:
            raise Untranslatable("from_litvec arguments")
        return V(ap("_root_.Optim.PM.fromLitvec", a.s, n.s), PM)
    if path == ["PartialModel", "new"] and len(args) == 1:
        n = av(0)
        return V(ap("_root_.Optim.PM.new", n.s), PM)
    if path == ["Literal", "new"] and len(args) == 2:
        a, b = av(0), to_bool(av(1))
        if a.ty != NAT or b.ty != BOOL:
            raise Untranslatable("Literal::new arguments")
        return mk_tuple([a, b])
    if path in (["VarLabel", "new"], ["VarLabel", "new_usize"]) and len(args) == 1:
        return av(0)
    if len(path) == 2 and path[0] in ("T", "C") and path[1] in ("one", "zero") and not args and cx.ops:
        return cx.one(TT) if path[1] == "one" else cx.zero(TT)
    if path == ["Self", "zero"] and not args and cx.ops == "S":
        return V("polyZero S maxCoeffs", POLY)
    if path == ["Self", "one"] and not args and cx.ops == "S":
        return V("polyOne S maxCoeffs", POLY)
    if path in (["JoinSemilattice", "join"], ["T", "join"], ["BBSemiring", "choose"], ["T", "choose"], ["PartialOrd", "le"],
                ["T", "le"]) and len(args) == 2 and cx.ops == "B":
        a, b = av(0), av(1)
        if a.ty != TT or b.ty != TT:
            raise Untranslatable("%s on %r" % ("::".join(path), a.ty))
        return V(ap("B." + path[1], a.s, b.s), BOOL if path[1] == "le" else TT)
    if path == ["FiniteField", "new"] and len(args) == 1 and "P" in cx.consts:
        a = av(0)
        if a.ty != NAT:
            raise Untranslatable("FiniteField::new argument")
        return V(ap("_root_.Sem.ffNew", "P", a.s), FF)
    raise Untranslatable("call of %s" % "::".join(path))


# sibling functions of src/repr/bdd.rs: rust name -> (lean name, generic?, parameter kinds, lean argument order, result type)
def sib(lean, generic, kinds, order, ret):
    return dict(lean=lean, generic=generic, kinds=kinds, order=order, ret=ret)


def siblings(sem):
    L, W = lst(NAT), WMC
    return {
        "marginal_map_eval": sib("marginalMapEval", False, [PM, L, W], ["self", 0, 1, 2], RAT),
        "marginal_map_h": sib("marginalMapH", False, [RAT, PM, L, W, PM], ["self", 3, 0, 1, 2, 4], tup(RAT, PM)),
        "marginal_map": sib("marginalMap", False, [L, NAT, W], ["self", 0, 1, 2], tup(RAT, PM)),
        "eu_ub": sib("euUb", False, [PM, L, W], ["self", 0, 1, 2], EU),
        "meu_h": sib("meuH", False, [EU, PM, L, W, PM], ["self", 3, 0, 1, 2, 4], tup(EU, PM)),
        "meu": sib("meu", False, [L, NAT, W], ["self", 0, 1, 2], tup(EU, PM)),
        "bb_ub": sib("bbUb", True, [PM, L, W], ["self", 0, 1, 2], TT),
        "bb_h": sib("bbH", True, [TT, PM, L, W, PM], ["self", 3, 0, 1, 2, 4], tup(TT, PM)),
        "bb": sib("bb", True, [L, NAT, W], ["self", 0, 1, 2], tup(TT, PM)),
    }


def mut_positions(src, name):
    """positions (after self) of the `&mut` parameters of a sibling, read from the source"""
    if src is None:
        return []
    try:
        ps, _ = find_fn(src, name, BDD_IMPL)
    except Untranslatable:
        return []
    return [i for i, (_, ty) in enumerate(parse_params_typed(ps)[1:]) if ty.startswith("&mut")]


SEM_OF = {"marginal_map_eval": RAT, "marginal_map_h": RAT, "marginal_map": RAT, "eu_ub": EU, "meu_h": EU, "meu": EU,
          "bb_ub": TT, "bb_h": TT, "bb": TT}


def ev_mcall(e, env, cx):
    recv, name, args = e[1], e[2], e[3]
    r = ev(recv, env, cx)
    t = r.ty
    av = lambda i: ev(args[i], env, cx)  # noqa: E731
    if name in ("clone", "to_owned") and not args:
        return r
    # ---- the diagram
    if t == PTR:
        if name == "bdd_fold_h" and len(args) == 3:
            # the memoised fold without the clearing wrapper: on a clean memo it computes the tree-level fold
            if cx.memo_dirty:
                cx.new_state.append("the scratch memo of `bdd_fold_h` is shared between two folds (not cleared in between)")
            cx.memo_dirty = True
            name = "bdd_fold"
        if name == "bdd_fold" and len(args) == 3:
            lo, hi = av(1), av(2)
            if not same_ty(lo.ty, hi.ty) or lo.ty not in (RAT, EU, TT, BOOL, NAT):
                raise Untranslatable("bdd_fold accumulator type %r" % (lo.ty,))
            cl = closure_of(args[0], 3, env)
            f, body = lam(cx, env, [(cl[1][0], NAT), (cl[1][1], lo.ty), (cl[1][2], lo.ty)], lambda sub: to_bool(ev(cl[2], sub, cx)))
            if not same_ty(body.ty, lo.ty):
                raise Untranslatable("bdd_fold closure returns %r" % (body.ty,))
            return V(ap("_root_.Optim.bddFold", f, lo.s, hi.s, r.s, "false"), lo.ty)
        sibs = siblings(cx.sem)
        if name in sibs and SEM_OF[name] == cx.sem:
            sp = sibs[name]
            if len(args) != len(sp["kinds"]):
                raise Untranslatable("arity of " + name)
            vals = [av(i) for i in range(len(args))]
            for v, kd in zip(vals, sp["kinds"]):
                if not same_ty(v.ty, kd):
                    raise Untranslatable("argument of %s has type %r, expected %r" % (name, v.ty, kd))
            la = [r.s if o == "self" else vals[o].s for o in sp["order"]]
            mpos = mut_positions(cx.src, name)
            if mpos and name == cx.cur_fn and cx.mut_params:
                # recursion of a function with `&mut` parameters: the call also delivers their new state
                call = V(ap(sp["lean"] + "Stateful" + (" B" if sp["generic"] else ""), *la), tup(sp["ret"], *[PM for _ in mpos]))
                for k2, pos in enumerate(mpos):
                    a = strip_ref(args[pos])
                    if a[0] != "var" or a[1] not in env:
                        raise Untranslatable("`&mut` argument is not a local")
                    env[a[1]] = proj(call, 1 + k2)
                return proj(call, 0)
            for pos in mpos:      # the callee mutates this local; its model takes it by value: the local is dead afterwards
                a = strip_ref(args[pos])
                if a[0] == "var" and a[1] in env:
                    del env[a[1]]
            return V(ap(sp["lean"] + (" B" if sp["generic"] else ""), *la), sp["ret"])
        if strip_ref(recv) == ("var", "self") and cx.src is not None and cx.depth < 3 and name not in sibs:
            # a private helper of the same impl: read it in place (parameters bound to the arguments)
            ps, hbody = find_fn(cx.src, name, BDD_IMPL)
            hparams = parse_params_typed(ps)
            if not hparams or hparams[0][0] != "self" or len(hparams) - 1 != len(args):
                raise Untranslatable("helper ." + name)
            if any(ty.startswith("&mut") for _, ty in hparams[1:]):
                raise Untranslatable("helper .%s with a `&mut` parameter" % name)
            henv = {}
            for (pn, _), a in zip(hparams[1:], args):
                henv[pn] = to_bool(ev(a, env, cx))
            hast = parse_body(hbody)
            saved = (cx.mut_params, cx.ret_ty, cx.lp)
            cx.mut_params, cx.ret_ty, cx.lp = [], None, []
            cx.depth += 1
            try:
                return eval_block(hast[1], hast[2], henv, cx, top=True)
            finally:
                cx.depth -= 1
                cx.mut_params, cx.ret_ty, cx.lp = saved
        raise Untranslatable("method .%s of the diagram" % name)
    # ---- weights
    if t == WMC:
        if name == "var_weight" and len(args) == 1:
            x = av(0)
            if x.ty != NAT:
                raise Untranslatable("var_weight argument")
            return V(ap(r.s, x.s), tup(cx.sem, cx.sem))
        raise Untranslatable("method .%s of WmcParams" % name)
    # ---- partial models
    if t == PM:
        if name == "get" and len(args) == 1:
            x = av(0)
            if x.ty != NAT:
                raise Untranslatable("PartialModel::get argument")
            return V(ap("_root_.Optim.PM.get", r.s, x.s), opt(BOOL))
        if name == "assignment_iter" and not args:
            return V(ap("_root_.Optim.PM.assignmentIter", r.s), lst(LIT))
        raise Untranslatable("method .%s of PartialModel" % name)
    # ---- literals
    if same_ty(t, LIT) and not args and name in ("label", "polarity"):
        return proj(r, 0 if name == "label" else 1)
    # ---- numbers
    if t == NAT:
        if name in ("value_usize", "value") and not args:
            return r
        if name in ("max", "min") and len(args) == 1:
            b = av(0)
            if b.ty != NAT:
                raise Untranslatable("max/min argument")
            return V(ap(name, r.s, b.s), NAT)
        if name == "saturating_sub" and len(args) == 1:
            b = av(0)
            if b.ty != NAT:
                raise Untranslatable("saturating_sub argument")
            return V("%s - %s" % (paren(r.s), paren(b.s)), NAT)
        if name == "leading_zeros" and not args and "P" in cx.consts:
            return V("128 - (if %s = 0 then 0 else Nat.log2 %s + 1)" % (paren(r.s), paren(r.s)), NAT)
        if name == "wrapping_mul" and len(args) == 1 and "P" in cx.consts:
            b = av(0)
            if b.ty != NAT:
                raise Untranslatable("wrapping_mul argument")
            return V("(%s * %s) %% 2 ^ 128" % (paren(r.s), paren(b.s)), NAT)
        if name == "checked_mul" and len(args) == 1 and "P" in cx.consts:
            b = av(0)
            if b.ty != NAT:
                raise Untranslatable("checked_mul argument")
            return V(ap("_root_.Sem.cmul", r.s, b.s), opt(NAT))
        raise Untranslatable("method .%s of an integer" % name)
    if t == RAT and name in ("max", "min") and len(args) == 1:
        b = av(0)
        if b.ty != RAT:
            raise Untranslatable("max/min argument")
        return V(ap(name, r.s, b.s), RAT)
    if t == TT and name in ("join", "choose", "le") and len(args) == 1 and cx.ops == "B":
        b = av(0)
        if b.ty != TT:
            raise Untranslatable("argument of ." + name)
        return V(ap("B." + name, r.s, b.s), BOOL if name == "le" else TT)
    if r.static and name not in ("iter", "into_iter", "copied", "cloned"):
        # `.len()`, `.zip`, `.enumerate`, `.iter_mut` … of `[C; MAX_COEFFS]` depend on the static length, which the
        # model's `List` does not carry (the equality with the model would need well-formedness): outside the grammar
        raise Untranslatable("method .%s of a fixed-size array (only indexing is translated)" % name)
    # ---- options
    if isinstance(t, tuple) and t[0] == "opt" and t[1] is not None:
        if name == "map" and len(args) == 1:
            cl = closure_of(args[0], 1, env)
            f, body = lam(cx, env, [(cl[1][0], t[1])], lambda sub: to_bool(ev(cl[2], sub, cx)))
            return V(ap("Option.map", f, r.s), opt(body.ty))
        if name == "and_then" and len(args) == 1:
            cl = closure_of(args[0], 1, env)
            f, body = lam(cx, env, [(cl[1][0], t[1])], lambda sub: ev(cl[2], sub, cx))
            if not (isinstance(body.ty, tuple) and body.ty[0] == "opt"):
                raise Untranslatable("and_then closure result")
            return V(ap("Option.bind", r.s, f), body.ty)
        if name == "unwrap_or" and len(args) == 1:
            d = to_bool(av(0))
            if not same_ty(d.ty, t[1]):
                raise Untranslatable("unwrap_or default")
            return V(ap("Option.getD", r.s, d.s), t[1])
        if name == "map_or" and len(args) == 2:
            d = to_bool(av(0))
            cl = closure_of(args[1], 1, env)
            f, body = lam(cx, env, [(cl[1][0], t[1])], lambda sub: to_bool(ev(cl[2], sub, cx)))
            if not same_ty(d.ty, body.ty):
                raise Untranslatable("map_or default")
            return V(ap("Option.getD", ap("Option.map", f, r.s), d.s), body.ty)
        if name in ("is_some", "is_none") and not args:
            return V(ap("Option.isSome" if name == "is_some" else "Option.isNone", r.s), BOOL)
        raise Untranslatable("method .%s of an Option" % name)
    # ---- lists / iterators
    if isinstance(t, tuple) and t[0] == "list" and t[1] is not None and name in ("filter", "partition", "any", "all", "position") and len(args) == 1:
        cl = closure_of(args[0], 1, env)
        f, body = lam(cx, env, [(cl[1][0], t[1])], lambda sub: to_bool(ev(cl[2], sub, cx)))
        if body.ty != BOOL:
            raise Untranslatable("predicate of .%s" % name)
        if name == "filter":
            return V(ap("List.filter", f, r.s), t)
        if name == "partition":
            return V(ap("List.partition", f, r.s), tup(t, t))
        if name == "position":
            return V(ap("List.findIdx?", f, r.s), opt(NAT))
        return V(ap("List.any" if name == "any" else "List.all", r.s, f), BOOL)
    if isinstance(t, tuple) and t[0] == "list" and t[1] is not None:
        if name == "rev" and not args:
            return V(ap("List.reverse", r.s), t)
        if name == "skip" and len(args) == 1:
            n = av(0)
            if n.ty != NAT:
                raise Untranslatable("skip argument")
            return V(ap("List.drop", n.s, r.s), t)
        if name == "zip" and len(args) == 1:
            o = av(0)
            if not (isinstance(o.ty, tuple) and o.ty[0] == "list" and o.ty[1] is not None):
                raise Untranslatable("zip argument")
            return V(ap("List.zip", r.s, o.s), lst(tup(t[1], o.ty[1])))
        if name == "enumerate" and not args:
            return V(ap("List.zip", ap("List.range", ap("List.length", r.s)), r.s), lst(tup(NAT, t[1])))
        if name == "sum" and not args and t[1] in (NAT, RAT, EU, TT):
            acc, x = cx.fresh("acc"), cx.fresh("x")
            body = binop("+", V(acc, t[1]), V(x, t[1]), cx)
            return V(ap("List.foldl", "fun (%s : %s) (%s : %s) => %s" % (acc, cx.lean_ty(t[1]), x, cx.lean_ty(t[1]), body.s),
                        cx.zero(t[1]).s, r.s), t[1])
    if isinstance(t, tuple) and t[0] == "list":
        if name in ("iter", "into_iter", "collect", "copied", "cloned", "to_vec") and not args:
            return r
        if name == "len" and not args:
            return V(ap("List.length", r.s), NAT)
        if name == "contains" and len(args) == 1:
            x = av(0)
            if not same_ty(lst(x.ty), t):
                raise Untranslatable("contains argument")
            return V(ap("List.contains", r.s, x.s), BOOL)
        if name == "take" and len(args) == 1:
            n = av(0)
            if n.ty != NAT:
                raise Untranslatable("take argument")
            return V(ap("List.take", n.s, r.s), t)
        if name == "map" and len(args) == 1 and t[1] is not None:
            cl = closure_of(args[0], 1, env)
            f, body = lam(cx, env, [(cl[1][0], t[1])], lambda sub: to_bool(ev(cl[2], sub, cx)))
            if re.match(r"^fun \((\w+) : [^)]*\) => \1$", f):      # `.map(|x| x.value_usize())`: the identity map
                return r
            return V(ap("List.map", f, r.s), lst(body.ty))
        if name == "fold" and len(args) == 2 and t[1] is not None:
            init = to_bool(av(0))
            cl = closure_of(args[1], 2, env)
            f, body = lam(cx, env, [(cl[1][0], init.ty), (cl[1][1], t[1])], lambda sub: to_bool(ev(cl[2], sub, cx)))
            if not same_ty(body.ty, init.ty):
                raise Untranslatable("fold closure returns %r" % (body.ty,))
            return V(ap("List.foldl", f, init.s, r.s), init.ty)
        raise Untranslatable("method .%s of a sequence" % name)
    raise Untranslatable("method .%s of %r" % (name, t))


# ------------------------------------------------------------------ match on an Option
def ev_match(e, env, cx, body_ev=None):
    body_ev = body_ev or ev
    scrut = ev(e[1], env, cx)
    t = scrut.ty
    if not (isinstance(t, tuple) and t[0] == "opt" and t[1] is not None):
        raise Untranslatable("match on %r" % (t,))
    if t[1] == BOOL:
        cases = [("none", None), ("some true", V("true", BOOL)), ("some false", V("false", BOOL))]
    else:
        nm = cx.fresh("v")
        cases = [("none", None), ("some " + nm, V(nm, t[1]))]

    def covers(pat, payload):
        """bindings if the pattern covers the case, else None"""
        k = pat[0]
        if k == "pwild":
            return {}
        if k == "pvar":
            return None if False else {pat[1]: scrut}
        if k == "pref":
            return covers(pat[1], payload)
        if k == "por":
            for p in pat[1]:
                b = covers(p, payload)
                if b is not None:
                    if b:
                        raise Untranslatable("bindings in an or-pattern")
                    return b
            return None
        if k == "pctor" and pat[1] == ["None"] and not pat[2]:
            return {} if payload is None else None
        if k == "pctor" and pat[1] == ["Some"] and len(pat[2]) == 1:
            if payload is None:
                return None
            sub = pat[2][0]
            while sub[0] == "pref":
                sub = sub[1]
            if sub[0] == "pwild":
                return {}
            if sub[0] == "pvar":
                return {sub[1]: payload}
            if sub[0] == "plit" and sub[1][0] == "bool" and payload.ty == BOOL and payload.s in ("true", "false"):
                return {} if (payload.s == "true") == sub[1][1] else None
            raise Untranslatable("pattern under Some")
        raise Untranslatable("pattern %r in a match on an Option" % (k,))

    arms_out = []
    for lean_pat, payload in cases:
        chain = []
        closed = False
        for pat, guard, body in e[2]:
            b = covers(pat, payload)
            if b is None:
                continue
            sub = dict(env)
            sub.update(b)
            g = ev(guard, sub, cx) if guard is not None else None
            chain.append((g, body_ev(body, sub, cx)))
            if g is None:
                closed = True
                break
        if not closed:
            raise Untranslatable("match is not exhaustive for `%s`" % lean_pat)
        val = chain[-1][1]
        for g, v in reversed(chain[:-1]):
            val = ite(g, v, val)
        arms_out.append((lean_pat, val))
    ty = arms_out[0][1].ty
    for _, v in arms_out[1:]:
        if not same_ty(v.ty, ty):
            raise Untranslatable("match arms of different types")
    return V("match %s with %s" % (scrut.s, " ".join("| %s => %s" % (p, v.s) for p, v in arms_out)), ty)


# ------------------------------------------------------------------ statements
def targets_of(e, out):
    e = strip_ref(e)
    if e[0] == "var":
        if e[1] not in out:
            out.append(e[1])
    elif e[0] == "tuple":
        for x in e[1]:
            targets_of(x, out)
    elif e[0] == "index":
        targets_of(e[1], out)
    else:
        raise Untranslatable("assignment target")


def assigned(node, out):
    """locals assigned (syntactically) by a statement / block / expression, in order of first assignment"""
    if node is None:
        return out
    k = node[0]
    if k == "block":
        for s in node[1]:
            assigned(s, out)
        assigned(node[2], out)
    elif k == "assign":
        targets_of(node[2], out)
        assigned(node[3], out)
    elif k == "expr":
        assigned(node[1], out)
    elif k == "mcall" and node[2] in ("set", "unset", "push") and strip_ref(node[1])[0] == "var":
        targets_of(node[1], out)
    elif k in ("mcall", "call"):
        for a in (node[3] if k == "mcall" else node[2]):
            if a[0] == "un" and a[1] == "&mut" and strip_ref(a)[0] == "var":
                targets_of(a, out)
            elif a[0] == "var" and a[1] in CUR_MUT_PARAMS and a[1] not in out:
                out.append(a[1])
    elif k == "let":
        assigned(node[3], out)
    elif k == "tuple" or k == "array":
        for a in node[1]:
            assigned(a, out)
    elif k == "if":
        assigned(node[2], out)
        assigned(node[3], out)
    elif k == "iflet":
        assigned(node[3], out)
        assigned(node[4], out)
    elif k == "match":
        for _, _, b in node[2]:
            assigned(b, out)
    elif k in ("for", "while"):
        assigned(node[3] if k == "for" else node[2], out)
    elif k == "loop":
        assigned(node[1], out)
    return out


def returns(block):
    return block is not None and block[0] == "block" and block[2] is None and block[1] and block[1][-1][0] == "return"


def merge(c, env, e1, e2, order_hint):
    changed = [k for k in env if k in e1 and k in e2 and e1[k] is not e2[k] and e1[k].s != e2[k].s]
    changed.sort(key=lambda k: order_hint.index(k) if k in order_hint else len(order_hint))
    if len(changed) == 1:
        k = changed[0]
        env[k] = ite(c, e1[k], e2[k])
    elif changed:
        t = ite(c, mk_tuple([e1[k] for k in changed]), mk_tuple([e2[k] for k in changed]))
        for i, k in enumerate(changed):
            env[k] = proj(t, i)


def pat_vars(pat, out):
    if pat[0] == "pvar":
        out.append(pat[1])
    elif pat[0] in ("ptuple", "por", "pslice"):
        for q in pat[1]:
            pat_vars(q, out)
    elif pat[0] == "pctor":
        for q in pat[2]:
            pat_vars(q, out)
    elif pat[0] == "pref":
        pat_vars(pat[1], out)
    elif pat[0] == "pstruct":
        for _, q in pat[2]:
            pat_vars(q, out)
    return out


def jumps(block):
    """the block ends in `continue` or `return`"""
    return (block is not None and block[0] == "block" and block[2] is None and bool(block[1])
            and block[1][-1][0] in ("continue", "return"))


def has_return(node):
    if isinstance(node, tuple):
        if node and node[0] == "return":
            return True
        if node and node[0] == "closure":
            return False
        return any(has_return(x) for x in node)
    if isinstance(node, list):
        return any(has_return(x) for x in node)
    return False


def finish(v, env, cx):
    """the value a `return` / the final expression delivers: the result and the state of the `&mut` parameters"""
    if not cx.mut_params:
        return v
    return mk_tuple([to_bool(v)] + [env[p] for p in cx.mut_params])


def exec_seq(stmts, env, cx, jump_end=False):
    """statements of a unit-valued block.  Inside a `for`: `if c { …; continue; }` / `if c { …; return e; }`
    (no else) make the rest of the sequence the other branch; `return e` fills the loop's early-return slot."""
    for i, s in enumerate(stmts):
        last = i == len(stmts) - 1
        if s[0] == "continue":
            if not (cx.lp and jump_end and last):
                raise Untranslatable("continue in this position")
            return
        if s[0] == "return":
            if not (cx.lp and cx.lp[-1]["ret"] and jump_end and last and s[1] is not None and "__done" in env):
                raise Untranslatable("return in this position")
            v = finish(ev(s[1], env, cx), env, cx)
            if not same_ty(v.ty, cx.ret_ty):
                raise Untranslatable("type of the returned value")
            env["__done"] = V(ap("some", v.s), opt(cx.ret_ty))
            return
        if s[0] == "expr" and s[1][0] == "if" and s[1][3] is None and jumps(s[1][2]) and cx.lp:
            c = ev(s[1][1], env, cx)
            e1, e2 = dict(env), dict(env)
            exec_seq(s[1][2][1], e1, cx, jump_end=True)
            exec_seq(stmts[i + 1:], e2, cx, jump_end=jump_end)
            hint = (["__done"] if "__done" in env else []) + assigned(("block", stmts[i:], None), [])
            merge(c, env, e1, e2, hint)
            return
        if s[0] == "let":
            pass
        exec_stmt(s, env, cx)


def exec_unit(node, env, cx):
    """execute a unit-valued expression (if / block / method call with effect) as a statement"""
    k = node[0]
    if k == "block":
        sub = dict(env)
        for s in node[1]:
            if s[0] == "let":
                for nm in pat_vars(s[1], []):
                    if nm in env:
                        raise Untranslatable("inner block shadows the outer local " + nm)
        exec_seq(node[1] + ([("expr", node[2])] if node[2] is not None else []), sub, cx)
        for name in env:
            env[name] = sub[name]
        return
    if k == "mcall" and strip_ref(node[1]) == ("var", "self") and node[2] in ("clear_scratch", "clear_scratch_upto") and cx.self_v is not None and cx.self_v.ty == PTR:
        # the scratch memo is not modelled (tree-level fold): a full clear after a fold is what `bdd_fold` does
        if node[2] == "clear_scratch" and not node[3]:
            cx.memo_dirty = False
        else:
            cx.new_state.append("the scratch memo of `bdd_fold_h` is cleared only partially (`%s`) between folds" % node[2])
        return
    if k == "mcall" and node[2] == "unset" and len(node[3]) == 1 and strip_ref(node[1])[0] == "var":
        nm = strip_ref(node[1])[1]
        r = ev(node[1], env, cx)
        x = ev(node[3][0], env, cx)
        if r.ty != PM or nm not in env or x.ty != NAT:
            raise Untranslatable(".unset on %r" % (r.ty,))
        env[nm] = V(ap("_root_.Optim.PM.mk", ap("List.set", paren(r.s) + ".vals", x.s, "none")), PM)
        return
    if k == "if":
        c = ev(node[1], env, cx)
        e1, e2 = dict(env), dict(env)
        exec_unit(node[2], e1, cx)
        if node[3] is not None:
            exec_unit(node[3], e2, cx)
        merge(c, env, e1, e2, assigned(node, []))
        return
    if k == "mcall" and node[2] == "set" and len(node[3]) == 2 and strip_ref(node[1])[0] == "var":
        nm = strip_ref(node[1])[1]
        r = ev(node[1], env, cx)
        if r.ty != PM or nm not in env:
            raise Untranslatable(".set on %r" % (r.ty,))
        x, b = ev(node[3][0], env, cx), to_bool(ev(node[3][1], env, cx))
        if x.ty != NAT or b.ty != BOOL:
            raise Untranslatable("PartialModel::set arguments")
        env[nm] = V(ap("_root_.Optim.PM.set", r.s, x.s, b.s), PM)
        return
    if k == "tuple" and not node[1]:
        return
    raise Untranslatable("statement expression " + k)


def exec_stmt(s, env, cx):
    k = s[0]
    if k == "let":
        v = ev(s[3], env, cx)
        if s[1][0] == "pvar":
            v = to_bool(v)
        bind_pattern(s[1], v, env, cx)
        return
    if k == "assign":
        op, tgt, rhs = s[1], strip_ref(s[2]), s[3]
        if op != "=":
            if tgt[0] != "var":
                raise Untranslatable("compound assignment target")
            v = binop(op[:-1], ev(tgt, env, cx), ev(rhs, env, cx), cx)
        else:
            v = to_bool(ev(rhs, env, cx))
        if tgt[0] == "var":
            if tgt[1] not in env:
                raise Untranslatable("assignment to unknown local " + tgt[1])
            if not same_ty(env[tgt[1]].ty, v.ty):
                raise Untranslatable("assignment changes the type of " + tgt[1])
            env[tgt[1]] = v
        elif tgt[0] == "tuple":
            names = []
            for x in tgt[1]:
                x = strip_ref(x)
                if x[0] != "var" or x[1] not in env:
                    raise Untranslatable("destructuring assignment target")
                names.append(x[1])
            if v.ty[0] != "tuple" or len(v.ty[1]) != len(names):
                raise Untranslatable("destructuring assignment arity")
            for i, nm in enumerate(names):
                pv = proj(v, i)
                if not same_ty(env[nm].ty, pv.ty):
                    raise Untranslatable("assignment changes the type of " + nm)
                env[nm] = pv
        elif tgt[0] == "index":
            base = strip_ref(tgt[1])
            if base[0] != "var" or base[1] not in env:
                raise Untranslatable("indexed assignment target")
            a, i = env[base[1]], ev(tgt[2], env, cx)
            if a.ty[0] != "list" or i.ty != NAT or not same_ty(a.ty[1], v.ty):
                raise Untranslatable("indexed assignment types")
            env[base[1]] = V(ap("List.set", a.s, i.s, v.s), a.ty)
        else:
            raise Untranslatable("assignment target")
        return
    if k == "expr":
        return exec_unit(s[1], env, cx)
    if k == "for":
        return exec_for(s, env, cx)
    if k == "while":
        return exec_while(s, env, cx)
    raise Untranslatable("statement kind " + k)


def exec_for(s, env, cx, ret=False):
    pat, it, body = s[1], s[2], s[3]
    seq = ev(it, env, cx)
    if not (isinstance(seq.ty, tuple) and seq.ty[0] == "list" and seq.ty[1] is not None):
        raise Untranslatable("for over %r" % (seq.ty,))
    state = [n for n in assigned(body, []) if n in env]
    if ret:
        if cx.ret_ty is None:
            raise Untranslatable("return inside a loop")
        env["__done"] = V("(none : %s)" % cx.lean_ty(opt(cx.ret_ty)), opt(cx.ret_ty))
        state = ["__done"] + state
    if not state:
        raise Untranslatable("for loop without effect")
    sname, ename = cx.fresh(state[0] if len(state) == 1 else "st"), cx.fresh(pat[1] if pat[0] == "pvar" else "it")
    st_ty = env[state[0]].ty if len(state) == 1 else tup(*[env[n].ty for n in state])
    inner = dict(env)
    sv = V(sname, st_ty)
    for i, n in enumerate(state):
        inner[n] = sv if len(state) == 1 else proj(sv, i)
    bind_pattern(pat, V(ename, seq.ty[1]), inner, cx)
    cx.lp.append({"ret": ret})
    try:
        exec_unit(body, inner, cx)
    finally:
        cx.lp.pop()
    new = mk_tuple([inner[n] for n in state])
    if ret:      # once the slot is filled the remaining iterations do nothing
        new = V("match %s with | some _ => %s | none => %s" % ((sv if len(state) == 1 else proj(sv, 0)).s, sname, new.s), st_ty)
    init = mk_tuple([env[n] for n in state])
    res = V(ap("List.foldl", "fun (%s : %s) (%s : %s) => %s" % (sname, cx.lean_ty(st_ty), ename, cx.lean_ty(seq.ty[1]), new.s),
               init.s, seq.s), st_ty)
    for i, n in enumerate(state):
        env[n] = res if len(state) == 1 else proj(res, i)


def exec_while(s, env, cx):
    """`while c { body }` over u128 locals: a generated fuel-recursive definition over the locals
    the body assigns (in order of declaration); the body may mention these locals and `P` only"""
    if cx.loop_name is None or cx.aux:
        raise Untranslatable("while loop")
    cond, body = s[1], s[2]
    mut = assigned(body, [])
    state = [n for n in env if n in mut]
    if not state or any(env[n].ty != NAT for n in state):
        raise Untranslatable("while loop state")
    names = [cx.fresh(n) for n in state]
    inner = {n: V(nm, NAT) for n, nm in zip(state, names)}      # nothing else is visible
    try:
        c = ev(cond, inner, cx)
        exec_unit(body, inner, cx)
    except Untranslatable as ex:
        raise Untranslatable("while loop: %s" % ex)
    st = "(" + ", ".join(names) + ")" if len(names) > 1 else names[0]
    ty = " × ".join("Nat" for _ in names)
    cx.aux.append(
        "def %s (P : Nat) : Nat → %s → %s\n  | 0, %s => %s\n  | fuel + 1, %s =>\n    if %s then %s else %s\n"
        % (cx.loop_name, " → ".join("Nat" for _ in names), ty, ", ".join(names), st, ", ".join(names), as_cond(c),
           ap(cx.loop_name + " P fuel", *[inner[n].s for n in state]), st))
    cx.loop_state = len(state)
    res = V(ap(cx.loop_name + " P 128", *[env[n].s for n in state]), tup(*[NAT for _ in state]) if len(state) > 1 else NAT)
    for i, n in enumerate(state):
        env[n] = res if len(state) == 1 else proj(res, i)


def ev_tail(e, env, cx):
    """an expression in tail position of the function body: `return` is allowed in its blocks, and what it
    delivers is `finish`ed (result + state of the `&mut` parameters)"""
    k = e[0]
    if k == "block":
        return eval_block(e[1], e[2], dict(env), cx, top=True)
    if k == "if" and e[3] is not None:
        return ite(ev(e[1], env, cx), ev_tail(e[2], env, cx), ev_tail(e[3], env, cx))
    if k == "match":
        return ev_match(e, env, cx, body_ev=ev_tail)
    if k == "iflet" and e[4] is not None:
        return ev_match(("match", e[2], [(e[1], None, e[3]), (("pwild",), None, e[4])]), env, cx, body_ev=ev_tail)
    return finish(ev(e, env, cx), env, cx)


def eval_block(stmts, tail, env, cx, top=False):
    """value of a block; `if c { …; return e; }` makes the rest of the block the else branch (`top`: the block is
    in tail position of the function body, the only place where `return` is read)"""
    for i, s in enumerate(stmts):
        if not top and has_return(s):
            raise Untranslatable("return inside a block that is not in tail position")
        if s[0] == "return":
            if s[1] is None:
                raise Untranslatable("return without value")
            return finish(ev(s[1], env, cx), env, cx)
        if s[0] == "expr" and s[1][0] == "if" and returns(s[1][2]) and s[1][3] is None:
            c = ev(s[1][1], env, cx)
            tv = eval_block(s[1][2][1], None, dict(env), cx, top=True)
            rest = eval_block(stmts[i + 1:], tail, env, cx, top=True)
            return ite(c, tv, rest)
        if s[0] == "expr" and s[1][0] == "iflet" and returns(s[1][3]) and s[1][4] is None:
            rest_block = ("block", stmts[i + 1:], tail)
            return ev_match(("match", s[1][2], [(s[1][1], None, s[1][3]), (("pwild",), None, rest_block)]), env, cx, body_ev=ev_tail)
        if s[0] == "for" and has_return(s[3]):
            exec_for(s, env, cx, ret=True)
            d = env.pop("__done")
            rest = eval_block(stmts[i + 1:], tail, env, cx, top=True)
            r = cx.fresh("r")
            return V("match %s with | some %s => %s | none => %s" % (d.s, r, r, rest.s), rest.ty)
        exec_stmt(s, env, cx)
    if tail is None:
        raise Untranslatable("block without value")
    if top:
        return ev_tail(tail, env, cx)
    if has_return(tail):
        raise Untranslatable("return inside a block that is not in tail position")
    return ev(tail, env, cx)


# ------------------------------------------------------------------ src/repr/bdd.rs
def kind_of_type(ty, sem):
    ty = ty.replace("&", "").replace("mut", "")
    ty = re.sub(r"'[a-z_]+", "", ty)
    if ty == "PartialModel":
        return PM
    if ty == "BitSet" or ty == "[VarLabel]" or ty == "Vec<VarLabel>":
        return lst(NAT)
    if ty.startswith("WmcParams<"):
        inner = ty[len("WmcParams<"):-1]
        want = {RAT: "RealSemiring", EU: "ExpectedUtility", TT: "T"}[sem]
        if inner != want:
            raise Untranslatable("weights over %s, expected %s" % (inner, want))
        return WMC
    if ty in ("f64", "RealSemiring"):
        return RAT
    if ty == "ExpectedUtility":
        return EU
    if ty == "T":
        return TT
    if ty in ("usize", "VarLabel", "u64"):
        return NAT
    raise Untranslatable("parameter type " + ty)


BDD_IMPL = r"impl\s*<\s*'a\s*>\s*BddPtr\s*<\s*'a\s*>\s*\{"


def lean_name(n):
    n = re.sub(r"[^A-Za-z0-9_]", "_", n)
    return n + "_" if n in LEAN_KEYWORDS or n in ("p", "B", "S", "P", "α", "maxCoeffs") else n


def translate_bdd_fn(src, rust):
    sem = SEM_OF[rust]
    sp = siblings(sem)[rust]
    ps, body = find_fn(src, rust, BDD_IMPL)
    params = parse_params_typed(ps)
    if not params or params[0][0] != "self":
        raise Untranslatable("not a method")
    params = params[1:]
    if len(params) != len(sp["kinds"]):
        raise Untranslatable("number of parameters")
    kinds = [kind_of_type(ty, sem) for _, ty in params]
    for kd, want in zip(kinds, sp["kinds"]):
        if kd != want:
            raise Untranslatable("parameter kinds changed: %r" % (kinds,))
    names = [lean_name(n) for n, _ in params]
    if len(set(names)) != len(names):
        raise Untranslatable("duplicate parameter names")
    cx = Ctx(sem=sem, ops="B" if sem == TT else None, self_v=V("p", PTR))
    cx.src, cx.cur_fn = src, rust
    cx.mut_params = [rn for (rn, ty), kd in zip(params, kinds) if ty.startswith("&mut")]
    for (rn, ty), kd in zip(params, kinds):
        if ty.startswith("&mut") and kd != PM:
            raise Untranslatable("`&mut` parameter of type " + ty)
    CUR_MUT_PARAMS[:] = cx.mut_params
    cx.ret_ty = tup(sp["ret"], *[PM for _ in cx.mut_params]) if cx.mut_params else sp["ret"]
    env = {}
    for (rn, _), ln, kd in zip(params, names, kinds):
        env[rn] = V(ln, kd)
    ast = parse_body(body)

    def outcome(text):
        """translated text, or DIFFERS when the body was read but uses state the model has no slot for"""
        if cx.memo_dirty:
            cx.new_state.append("the scratch memo of `bdd_fold_h` is left uncleared when the function returns")
        why = []
        if cx.mut_params:
            why.append("parameter `%s: &mut PartialModel` is mutated in place and outlives the call (the model passes the assignment by value)"
                       % ", ".join(cx.mut_params))
        for w in cx.new_state:
            if w not in why:
                why.append(w)
        if why:
            extra = ""
            if cx.mut_params and not cx.new_state:
                extra = "-- the reading of the source with the state threaded (result, final state of the `&mut` parameters):\n" + text
            raise Differs("; ".join(why), extra)
        return text

    lname = sp["lean"] + ("Stateful" if cx.mut_params else "")
    wty = {RAT: "Rat", EU: "_root_.Sem.EU", TT: "α"}[sem]

    def binder(o):
        if o == "self":
            return "(p : _root_.Bdd.Ptr)"
        kd = kinds[o]
        return "(%s : %s)" % (names[o], "_root_.Spec.Weights " + wty if kd == WMC else cx.lean_ty(kd))

    prefix = "{α : Type} (B : _root_.Optim.BBOps α) " if sp["generic"] else ""
    ret = cx.lean_ty(cx.ret_ty)
    if not rust.endswith("_h"):
        val = eval_block(ast[1], ast[2], env, cx, top=True)
        if not same_ty(val.ty, cx.ret_ty):
            raise Untranslatable("result type %r" % (val.ty,))
        return outcome("def %s %s%s : %s :=\n  %s\n" % (lname, prefix, " ".join(binder(o) for o in sp["order"]), ret, val.s))
    # recursion over the slice parameter: `match slice { [] => …, [x, rest @ ..] => … }`
    if ast[1] or ast[2] is None or ast[2][0] != "match":
        raise Untranslatable("body is not a single match on the slice")
    m = ast[2]
    scrut = strip_ref(m[1])
    slice_pos = sp["kinds"].index(lst(NAT))
    if scrut != ("var", params[slice_pos][0]):
        raise Untranslatable("match scrutinee is not the slice parameter")
    fixed = [o for o in sp["order"] if o == "self" or kinds[o] == WMC]
    moving = [o for o in sp["order"] if o not in fixed]
    arms = []
    for pat, guard, abody in m[2]:
        # slice patterns `[p1, …, pk]` and `[p1, …, pk, rest @ ..]` (elements: a name or `_`), equations in source order;
        # Lean checks that they are exhaustive and that the recursion is structural (elaboration guard otherwise)
        if guard is not None or pat[0] != "pslice":
            raise Untranslatable("arm of the slice match")
        sub = dict(env)
        elems = list(pat[1])
        rest = None
        if elems and elems[-1][0] == "prest":
            rest = elems.pop()
        lean_elems, whole_ok = [], True
        for q in elems:
            while q[0] == "pref":
                q = q[1]
            if q[0] == "pvar":
                nm = lean_name(q[1]) + "_hd"
                sub[q[1]] = V(nm, NAT)
                lean_elems.append(nm)
            elif q[0] == "pwild":
                lean_elems.append("_")
                whole_ok = False
            else:
                raise Untranslatable("slice pattern")
        if rest is None:
            lp = "[" + ", ".join(lean_elems) + "]"
            whole = "([%s] : List Nat)" % ", ".join(lean_elems)
        else:
            tl = lean_name(rest[1]) + "_tl" if rest[1] else "_"
            if rest[1]:
                sub[rest[1]] = V(tl, lst(NAT))
            else:
                whole_ok = False
            lp = " :: ".join(lean_elems + [tl])
            whole = "(" + lp + ")"
        if whole_ok:
            sub[params[slice_pos][0]] = V(whole, lst(NAT))
        else:
            del sub[params[slice_pos][0]]
        val = ev_tail(abody, sub, cx)
        if not same_ty(val.ty, cx.ret_ty):
            raise Untranslatable("result type %r" % (val.ty,))
        arms.append("  | %s => %s" % (", ".join(lp if o == slice_pos else names[o] for o in moving), val.s))
    sig = " → ".join(cx.lean_ty(kinds[o]) for o in moving)
    return outcome("def %s %s%s : %s → %s\n%s\n" % (lname, prefix, " ".join(binder(o) for o in fixed), sig, ret, "\n".join(arms)))


# ------------------------------------------------------------------ FiniteField::mul
def translate_ff_mul(src):
    ps, body = find_fn(src, "mul", r"impl\s*<[^{]*ops::Mul\s*<[^{]*for\s+FiniteField[^{]*\{")
    params = parse_params_typed(ps)
    if [n for n, _ in params][:1] != ["self"] or len(params) != 2 or "FiniteField" not in params[1][1] and params[1][1] != "Self":
        raise Untranslatable("signature of mul")
    cx = Ctx(consts={"P": V("P", NAT)}, self_v=V("a", FF), loop_name="ffMulLoop")
    cx.ret_ty = FF
    env = {params[1][0]: V("b", FF)}
    ast = parse_body(body)
    val = eval_block(ast[1], ast[2], env, cx, top=True)
    if val.ty != FF:
        raise Untranslatable("result type %r" % (val.ty,))
    loop = cx.aux[0] if cx.aux else ("-- the source of `mul` has no `while` loop: `ffMulLoop` is the model's loop, `ffMul` is translated\n" + FF_LOOP_ALIAS)
    return loop + "\ndef ffMul (P a b : Nat) : Nat :=\n  %s\n" % val.s


FF_LOOP_ALIAS = "def ffMulLoop (P fuel a b acc : Nat) : Nat × Nat × Nat := (a, b, _root_.Sem.ffMulLoop P fuel a b acc)\n"

# ------------------------------------------------------------------ Polynomial
POLY_FILE = "src/util/semirings/polynomial_semiring_implementation.rs"


def translate_poly(src, rust):
    hint = {"zero": r"impl\s*<[^{]*>\s*Semiring\s+for\s+Polynomial[^{]*\{", "one": r"impl\s*<[^{]*>\s*Semiring\s+for\s+Polynomial[^{]*\{",
            "add": r"impl\s*<[^{]*>\s*ops::Add\s+for\s+Polynomial[^{]*\{", "mul": r"impl\s*<[^{]*>\s*ops::Mul\s+for\s+Polynomial[^{]*\{"}[rust]
    ps, body = find_fn(src, rust, hint)
    params = parse_params_typed(ps)
    binary = rust in ("add", "mul")
    if binary:
        if len(params) != 2 or params[0][0] != "self" or params[1][1] not in ("Self", "Polynomial<C>"):
            raise Untranslatable("signature of " + rust)
    elif params:
        raise Untranslatable("signature of " + rust)
    cx = Ctx(sem=TT, ops="S", consts={"MAX_COEFFS": V("maxCoeffs", NAT)}, self_v=V("p", POLY) if binary else None)
    env = {params[1][0]: V("q", POLY)} if binary else {}
    cx.ret_ty = POLY
    ast = parse_body(body)
    val = eval_block(ast[1], ast[2], env, cx, top=True)
    if val.ty != POLY:
        raise Untranslatable("result type %r" % (val.ty,))
    lean = {"zero": "polyZero", "one": "polyOne", "add": "polyAdd", "mul": "polyMul"}[rust]
    return "def %s {α : Type} (S : SROps α) (maxCoeffs : Nat)%s : _root_.Sem.Poly α :=\n  %s\n" % (
        lean, " (p q : _root_.Sem.Poly α)" if binary else "", val.s)


# ------------------------------------------------------------------ output
HEADER = """import RsddModel.Model.Optim
import RsddModel.Model.Semirings
/-!
# Generated by tools/gen_optim.py from the Rust source — do not edit

`src/repr/bdd.rs` (marginal MAP, maximum expected utility, generic branch and bound),
`src/util/semirings/finitefield.rs` (`Mul::mul`), `src/util/semirings/polynomial_semiring_implementation.rs`.
Compared with the hand-written model in `Props/TieOptim.lean`.
-/
set_option linter.unusedVariables false
"""

BDD_FUNS = ["marginal_map_eval", "marginal_map_h", "marginal_map", "eu_ub", "meu_h", "meu", "bb_ub", "bb_h", "bb"]
MODEL_OF = {"marginal_map_eval": "marginalMapEval", "marginal_map_h": "marginalMapH", "marginal_map": "marginalMap",
            "eu_ub": "euUb", "meu_h": "meuH", "meu": "meu", "bb_ub": "bbUb", "bb_h": "bbH", "bb": "bb"}
UNTR = "UNTRANSLATED (translator route not available, tied by correspondence only): %s"
CAUGHT = (Untranslatable, KeyError, IndexError, ValueError, TypeError, AttributeError, AssertionError, RecursionError)


def write_if_changed(path, text):
    old = open(path).read() if os.path.exists(path) else None
    if old != text:
        open(path, "w").write(text)


def read(rel):
    try:
        return open(os.path.join(REPO, rel)).read(), None
    except OSError as e:
        return None, str(e)


def note(rust, e):
    return "-- TRANSLATOR ROUTE NOT AVAILABLE for %s: %s\n" % (rust, str(e).replace("\n", " "))


# ------------------------------------------------------------------ Add / Mul / Sub of the f64 weight types
SEM_TYPES = {
    # Rust type -> (file, type tag of `self`, Lean carrier, prefix of the model names)
    "ExpectedUtility": ("src/util/semirings/expectation.rs", EU, EU, "eu"),
    "Complex": ("src/util/semirings/complex.rs", CX, CX, "cx"),
    "RealSemiring": ("src/util/semirings/realsemiring.rs", REALT, RAT, "real"),
}


def translate_sem_op(src, tname, op):
    _, self_type, carrier, pre = SEM_TYPES[tname]
    trait = {"add": "Add", "mul": "Mul", "sub": "Sub"}[op]
    ps, body = find_fn(src, op, r"impl\s+(?:ops::)?%s\s*(?:<\s*%s\s*>)?\s+for\s+%s\s*\{" % (trait, tname, tname))
    params = parse_params_typed(ps)
    if len(params) != 2 or params[0][0] != "self" or params[1][1] not in ("Self", tname):
        raise Untranslatable("signature of " + op)
    cx = Ctx(self_v=V("a", carrier), self_type=self_type)
    env = {params[1][0]: V("b", carrier)}
    cx.ret_ty = carrier
    ast = parse_body(body)
    val = eval_block(ast[1], ast[2], env, cx, top=True)
    if val.ty != carrier:
        raise Untranslatable("result type %r" % (val.ty,))
    ty = cx.lean_ty(carrier)
    return "def %s%s (a b : %s) : %s :=\n  %s\n" % (pre, trait, ty, ty, val.s)


# ------------------------------------------------------------------ assembling, elaboration guard
def elaborate(text):
    """elaborate a candidate text once; returns the set of 1-based error lines, or None when lean could not be run"""
    import subprocess, tempfile
    lean_dir = os.path.join(ROOT, "lean")
    try:
        fd, path = tempfile.mkstemp(prefix="GenOptimCandidate", suffix=".lean", dir=lean_dir)
        with os.fdopen(fd, "w") as f:
            f.write(text)
        try:
            r = subprocess.run(["lake", "env", "lean", path], cwd=lean_dir, capture_output=True, text=True, timeout=600)
        finally:
            os.unlink(path)
    except Exception:
        return None
    out = r.stdout + r.stderr
    lines = set(int(m.group(1)) for m in re.finditer(r"GenOptimCandidate[^:\s]*\.lean:(\d+):\d+: error", out))
    if r.returncode != 0 and not lines:
        return None          # lean failed for a reason that is not an error in the text (missing oleans, …): cannot check
    return lines


def render(chunks):
    """chunks: [(key or None, text)] -> text, {key: (first line, last line)}"""
    out, spans, line = [], {}, 1
    for key, text in chunks:
        n = text.count("\n") + 1          # the chunk plus the joining newline
        if key is not None:
            spans[key] = (line, line + n - 1)
        out.append(text)
        line += n
    return "\n".join(out), spans


def main():
    status = {}
    alias = {}
    chunks = [(None, HEADER), (None, "namespace Gen.Optim\n")]

    def attempt(key, label, fn, alias_text, ok="translated"):
        alias[key] = alias_text
        try:
            chunks.append((key, fn()))
            status[key] = ok
        except Differs as e:
            # the body was read; it keeps / takes state the model has no counterpart for: alias (the build stays green),
            # the orchestrator treats the status like a failed tie
            chunks.append((key, "-- DIFFERS (new state) for %s: %s\n" % (label, str(e).replace("\n", " ")) + alias_text + e.extra))
            status[key] = "DIFFERS (new state): %s" % e
        except CAUGHT as e:
            chunks.append((key, note(label, e) + alias_text))
            status[key] = UNTR % (str(e) or type(e).__name__)

    def need(src, err):
        if src is None:
            raise Untranslatable(err)
        return src

    src, err = read("src/repr/bdd.rs")
    for rust in BDD_FUNS:
        attempt("BddPtr::" + rust, rust, lambda rust=rust: translate_bdd_fn(need(src, err), rust),
                "abbrev %s := @_root_.Optim.%s\n" % (MODEL_OF[rust], MODEL_OF[rust]))
    chunks.append((None, "end Gen.Optim\n\nnamespace Gen.OptimSem\n"))
    fsrc, ferr = read("src/util/semirings/finitefield.rs")
    attempt("FiniteField::mul", "FiniteField::mul", lambda: translate_ff_mul(need(fsrc, ferr)),
            FF_LOOP_ALIAS + "abbrev ffMul := @_root_.Sem.ffMul\n", ok="translated (with its loop)")
    psrc, perr = read(POLY_FILE)
    for rust, lean in (("zero", "polyZero"), ("one", "polyOne"), ("add", "polyAdd"), ("mul", "polyMul")):
        attempt("Polynomial::" + rust, "Polynomial::" + rust, lambda rust=rust: translate_poly(need(psrc, perr), rust),
                "abbrev %s := @_root_.Sem.%s\n" % (lean, lean))
    for tname, (path, _, _, pre) in SEM_TYPES.items():
        ssrc, serr = read(path)
        for op in ("add", "mul", "sub"):
            lean = pre + op.capitalize()
            attempt("%s::%s" % (tname, op), "%s::%s" % (tname, op),
                    lambda ssrc=ssrc, serr=serr, tname=tname, op=op: translate_sem_op(need(ssrc, serr), tname, op),
                    "abbrev %s := @_root_.Sem.%s\n" % (lean, lean))
    chunks.append((None, "end Gen.OptimSem\n"))
    text, spans = render(chunks)
    old = open(OUT).read() if os.path.exists(OUT) else None
    if text != old:
        # elaboration guard: a generated definition that does not elaborate falls back to its alias
        for _ in range(4):
            errs = elaborate(text)
            if not errs:
                break
            bad = [k for k, (a, b) in spans.items() if any(a <= l <= b for l in errs) and not status[k].startswith("UNTRANSLATED")]
            if not bad:
                break
            for k in bad:
                status[k] = UNTR % "the translation does not elaborate"
            chunks = [(k, (note(k, "the translation does not elaborate") + alias[k]) if k in bad else t) for k, t in chunks]
            text, spans = render(chunks)
    write_if_changed(OUT, text)
    return status


if __name__ == "__main__":
    for k, v in main().items():
        print(k, "->", v)
