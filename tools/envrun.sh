#!/bin/bash
# usage: envrun.sh N listfile   (lines: <seed-name> <property>)
n=$1; E=/tmp/env$n; export VERIF_REPO=$E/repo SEED_EVAL_NO_REFRESH=1
cd $E/verif
while read name prop; do
  [ -z "$name" ] && continue
  s=$(date +%s)
  python3 tools/seed_eval.py --recheck $name $prop > $E/last.log 2>&1
  ex=$(python3 -c "import json;m=json.load(open('$E/verif/seeded/$name/meta.json'));r=m['check_results']['$prop'];print(r['exit'], r['verdict'][:150].replace(chr(10),' '))")
  echo "$name $prop $(( $(date +%s)-s ))s $ex" >> $E/results.txt
  git -C $E/repo status --short | grep -q . && { echo "DIRTY after $name" >> $E/results.txt; git -C $E/repo checkout -- .; }
done < $2
echo DONE >> $E/results.txt
