#!/usr/bin/env python3
"""Tokenizer + recursive-descent parser for the Rust subset used by tools/gen_sddcore.py.

AST (tuples):
 expressions  ('id',n) ('num',n) ('bool',b) ('str',s) ('path',[segs]) ('call',f,args) ('mcall',recv,name,args)
              ('field',recv,name) ('index',recv,i) ('un',op,e) ('bin',op,l,r) ('tuple',[e]) ('array',[e])
              ('macro',name,args) ('matches',e,pat) ('if',cond,block,else|None) with cond = expr | ('let',pat,e)
              ('match',scrut,[(pat,guard|None,expr)]) ('block',stmts,tail|None) ('closure',[pat],body)
              ('return',e|None) ('break',) ('continue',) ('range',lo,hi) ('struct',segs,[(field,expr)])
 statements   ('let',pat,e|None) ('expr',e) ('for',pat,iter,block) ('while',cond,block) ('assign',op,lhs,rhs)
 patterns     ('wild',) ('bind',n) ('plit',v) ('ppath',segs,[pats]|None) ('ptuple',[p]) ('pslice',[p])
              ('por',[p]) ('pstruct',segs,[(field,pat)])
"""
import re


class Untranslatable(Exception):
    pass


TOK = re.compile(r"""
   (?P<str>"(?:[^"\\]|\\.)*")
 | (?P<life>'[A-Za-z_][A-Za-z0-9_]*(?!'))
 | (?P<chr>'(?:[^'\\]|\\.)')
 | (?P<num>\d[\d_]*(?:\.\d+)?(?:usize|u64|u128|u32|i32|f64)?)
 | (?P<id>[A-Za-z_][A-Za-z0-9_]*)
 | (?P<op>=>|==|!=|&&|\|\||::|->|<=|>=|\+=|-=|\.\.|[(){}\[\],.!:;=+\-*/%<>&|?#@])
""", re.X)


def strip_comments(s):
    s = re.sub(r"/\*.*?\*/", " ", s, flags=re.S)
    out = []
    for line in s.split("\n"):
        # cut `//` comments that are not inside a string literal
        i, instr = 0, False
        while i < len(line):
            c = line[i]
            if c == '"' and (i == 0 or line[i - 1] != "\\"):
                instr = not instr
            if not instr and line.startswith("//", i):
                line = line[:i]
                break
            i += 1
        out.append(line)
    return "\n".join(out)


def tokenize(s):
    s = strip_comments(s)
    out, i = [], 0
    n = len(s)
    while i < n:
        if s[i].isspace():
            i += 1
            continue
        m = TOK.match(s, i)
        if not m:
            raise Untranslatable("cannot tokenize at: " + s[i:i + 30])
        out.append((m.lastgroup, m.group(0)))
        i = m.end()
    return out


class Parser:
    def __init__(self, toks, i=0):
        self.t, self.i = toks, i

    def peek(self, k=0):
        j = self.i + k
        return self.t[j][1] if j < len(self.t) else None

    def kind(self, k=0):
        j = self.i + k
        return self.t[j][0] if j < len(self.t) else None

    def eat(self, x=None):
        tok = self.peek()
        if tok is None or (x is not None and tok != x):
            raise Untranslatable("expected %r, found %r (token %d)" % (x, tok, self.i))
        self.i += 1
        return tok

    def at(self, x):
        return self.peek() == x

    def opt(self, x):
        if self.peek() == x:
            self.i += 1
            return True
        return False

    # ---------------------------------------------------------- types (skipped)
    def skip_type(self, stops):
        """skip a type up to one of `stops` at bracket depth 0"""
        depth = 0
        while True:
            t = self.peek()
            if t is None:
                raise Untranslatable("end of input in type")
            if depth == 0 and t in stops:
                return
            if t in "(<[":
                depth += 1
            elif t in ")>]":
                depth -= 1
            elif t == "->":
                pass
            self.i += 1

    def type_text(self, stops):
        a = self.i
        self.skip_type(stops)
        return " ".join(x[1] for x in self.t[a:self.i])

    # ---------------------------------------------------------- patterns
    def pattern(self):
        alts = [self.pattern1()]
        while self.at("|"):
            self.eat("|")
            alts.append(self.pattern1())
        return alts[0] if len(alts) == 1 else ("por", alts)

    def pattern1(self):
        t = self.peek()
        if t == "&":
            self.eat()
            self.opt("mut")
            return self.pattern1()
        if t == "_":
            self.eat()
            return ("wild",)
        if t == "(":
            self.eat()
            ps = []
            while not self.at(")"):
                ps.append(self.pattern())
                if not self.opt(","):
                    break
            self.eat(")")
            return ps[0] if len(ps) == 1 else ("ptuple", ps)
        if t == "[":
            self.eat()
            ps = []
            while not self.at("]"):
                ps.append(self.pattern())
                if not self.opt(","):
                    break
            self.eat("]")
            return ("pslice", ps)
        if t in ("true", "false"):
            self.eat()
            return ("plit", t == "true")
        if self.kind() == "num":
            return ("plit", int(re.match(r"\d+", self.eat()).group(0)))
        if t in ("mut", "ref"):
            self.eat()
            return self.pattern1()
        if self.kind() == "id":
            segs = [self.eat()]
            while self.at("::"):
                self.eat()
                segs.append(self.eat())
            if self.at("("):
                self.eat()
                ps = []
                while not self.at(")"):
                    ps.append(self.pattern())
                    if not self.opt(","):
                        break
                self.eat(")")
                return ("ppath", segs, ps)
            if self.at("{"):
                self.eat()
                fs = []
                while not self.at("}"):
                    if self.at(".."):
                        self.eat()
                        break
                    f = self.eat()
                    if self.opt(":"):
                        fs.append((f, self.pattern()))
                    else:
                        fs.append((f, ("bind", f)))
                    if not self.opt(","):
                        break
                self.eat("}")
                return ("pstruct", segs, fs)
            if len(segs) == 1 and (segs[0][0].islower() or segs[0][0] == "_"):
                return ("bind", segs[0])
            return ("ppath", segs, None)
        raise Untranslatable("pattern starts with %r" % t)

    # ---------------------------------------------------------- expressions
    def expr(self, nostruct=False):
        return self.range_(nostruct)

    def range_(self, ns):
        l = self.or_(ns)
        if self.at(".."):
            self.eat()
            r = self.or_(ns)
            return ("range", l, r)
        return l

    def or_(self, ns):
        l = self.and_(ns)
        while self.at("||"):
            self.eat()
            l = ("bin", "||", l, self.and_(ns))
        return l

    def and_(self, ns):
        l = self.cmp(ns)
        while self.at("&&"):
            self.eat()
            l = ("bin", "&&", l, self.cmp(ns))
        return l

    def cmp(self, ns):
        l = self.add(ns)
        if self.peek() in ("==", "!=", "<", ">", "<=", ">="):
            op = self.eat()
            l = ("bin", op, l, self.add(ns))
        return l

    def add(self, ns):
        l = self.mul(ns)
        while self.peek() in ("+", "-"):
            op = self.eat()
            l = ("bin", op, l, self.mul(ns))
        return l

    def mul(self, ns):
        l = self.unary(ns)
        while self.peek() in ("*", "/", "%"):
            op = self.eat()
            l = ("bin", op, l, self.unary(ns))
        return l

    def unary(self, ns):
        t = self.peek()
        if t in ("!", "-", "*"):
            self.eat()
            return ("un", t, self.unary(ns))
        if t == "&":
            self.eat()
            self.opt("mut")
            return ("un", "&", self.unary(ns))
        if t == "&&":
            self.eat()
            return ("un", "&", ("un", "&", self.unary(ns)))
        return self.postfix(ns)

    def args(self, close=")"):
        out = []
        while not self.at(close):
            out.append(self.expr())
            if not self.opt(","):
                break
        self.eat(close)
        return out

    def postfix(self, ns):
        e = self.primary(ns)
        while True:
            t = self.peek()
            if t == ".":
                self.eat()
                if self.kind() == "num":
                    e = ("field", e, self.eat())
                    continue
                name = self.eat()
                if self.at("::"):          # turbofish
                    self.eat()
                    self.eat("<")
                    self.skip_type([">"])
                    self.eat(">")
                if self.at("("):
                    self.eat()
                    e = ("mcall", e, name, self.args())
                else:
                    e = ("field", e, name)
            elif t == "[":
                self.eat()
                i = self.expr()
                self.eat("]")
                e = ("index", e, i)
            elif t == "(" and e[0] in ("path", "id"):
                self.eat()
                e = ("call", e, self.args())
            elif t == "?":
                raise Untranslatable("`?` operator")
            else:
                return e

    def block(self):
        self.eat("{")
        stmts, tail = [], None
        while not self.at("}"):
            s = self.stmt()
            if s[0] == "tail":
                tail = s[1]
                if not self.at("}"):
                    raise Untranslatable("expression without `;` in the middle of a block")
                break
            stmts.append(s)
        self.eat("}")
        return ("block", stmts, tail)

    def stmt(self):
        t = self.peek()
        if t == ";":
            self.eat()
            return ("expr", ("tuple", []))
        if t == "let":
            self.eat()
            pat = self.pattern()
            if self.opt(":"):
                self.skip_type(["=", ";"])
            e = None
            if self.opt("="):
                e = self.expr()
            self.eat(";")
            return ("let", pat, e)
        if t == "for":
            self.eat()
            pat = self.pattern()
            self.eat("in")
            it = self.expr(nostruct=True)
            b = self.block()
            return ("for", pat, it, b)
        if t == "while":
            self.eat()
            c = self.cond()
            b = self.block()
            return ("while", c, b)
        if t == "loop":
            raise Untranslatable("`loop`")
        if t in ("fn", "use", "const", "static", "struct", "impl", "unsafe"):
            raise Untranslatable("item / unsafe block inside a body: %s" % t)
        e = self.expr()
        if self.peek() in ("=", "+=", "-="):
            op = self.eat()
            r = self.expr()
            self.eat(";")
            return ("assign", op, e, r)
        if self.opt(";"):
            return ("expr", e)
        if e[0] in ("if", "match", "block") and not self.at("}"):
            return ("expr", e)            # block-like expression statement
        return ("tail", e)

    def cond(self):
        if self.at("let"):
            self.eat()
            pat = self.pattern()
            self.eat("=")
            e = self.expr(nostruct=True)
            return ("let", pat, e)
        return self.expr(nostruct=True)

    def if_(self):
        self.eat("if")
        c = self.cond()
        th = self.block()
        el = None
        if self.opt("else"):
            el = self.if_() if self.at("if") else self.block()
        return ("if", c, th, el)

    def primary(self, ns):
        t, k = self.peek(), self.kind()
        if t == "(":
            self.eat()
            es = []
            trailing = False
            while not self.at(")"):
                es.append(self.expr())
                trailing = False
                if not self.opt(","):
                    break
                trailing = True
            self.eat(")")
            if len(es) == 1 and not trailing:
                return es[0]
            return ("tuple", es)
        if t == "[":
            self.eat()
            return ("array", self.args("]"))
        if t == "{":
            return self.block()
        if t == "if":
            return self.if_()
        if t == "match":
            self.eat()
            scrut = self.expr(nostruct=True)
            self.eat("{")
            arms = []
            while not self.at("}"):
                pat = self.pattern()
                guard = None
                if self.opt("if"):
                    guard = self.expr()
                self.eat("=>")
                body = self.expr()
                self.opt(",")
                arms.append((pat, guard, body))
            self.eat("}")
            return ("match", scrut, arms)
        if t == "return":
            self.eat()
            if self.peek() in (";", "}", ","):
                return ("return", None)
            return ("return", self.expr())
        if t == "break":
            self.eat()
            return ("break",)
        if t == "continue":
            self.eat()
            return ("continue",)
        if t in ("|", "||"):
            params = []
            if t == "||":
                self.eat()
            else:
                self.eat("|")
                while not self.at("|"):
                    params.append(self.pattern1())
                    if self.opt(":"):
                        self.skip_type([",", "|"])
                    if not self.opt(","):
                        break
                self.eat("|")
            return ("closure", params, self.expr())
        if t in ("true", "false"):
            self.eat()
            return ("bool", t == "true")
        if k == "num":
            return ("num", int(re.match(r"[\d_]+", self.eat()).group(0).replace("_", "")))
        if k == "str":
            return ("str", self.eat())
        if t in ("unsafe", "loop", "while", "for", "move"):
            raise Untranslatable("`%s` expression" % t)
        if k == "id":
            segs = [self.eat()]
            while self.at("::"):
                self.eat()
                if self.at("<"):
                    self.eat()
                    self.skip_type([">"])
                    self.eat(">")
                    continue
                segs.append(self.eat())
            if self.at("!") and self.peek(1) in ("(", "["):
                self.eat("!")
                close = ")" if self.eat() == "(" else "]"
                if segs == ["matches"]:
                    e = self.expr()
                    self.eat(",")
                    pat = self.pattern()
                    self.opt(",")
                    self.eat(close)
                    return ("matches", e, pat)
                return ("macro", segs[-1], self.args(close))
            if self.at("{") and not ns and segs[-1][0].isupper():
                self.eat()
                fs = []
                while not self.at("}"):
                    f = self.eat()
                    if self.opt(":"):
                        fs.append((f, self.expr()))
                    else:
                        fs.append((f, ("id", f)))
                    if not self.opt(","):
                        break
                self.eat("}")
                return ("struct", segs, fs)
            if len(segs) == 1:
                return ("id", segs[0])
            return ("path", segs)
        raise Untranslatable("expression starts with %r" % t)


def find_fn(toks, name, nth_with_body=0, after=None):
    """locate `fn name ... { body }`; returns (params [(name, type text)], return type text, body AST).
    Declarations without a body (trait items ending in `;`) are skipped.  `after`: only look behind the
    first occurrence of that token sequence (e.g. ['impl', ... ])"""
    start = 0
    if after is not None:
        for j in range(len(toks) - len(after)):
            if [x[1] for x in toks[j:j + len(after)]] == after:
                start = j
                break
        else:
            raise Untranslatable("anchor %r not found" % " ".join(after))
    seen = 0
    for j in range(start, len(toks) - 1):
        if toks[j][1] == "fn" and toks[j + 1][1] == name:
            p = Parser(toks, j + 2)
            if p.at("<"):
                p.eat()
                p.skip_type([">"])
                p.eat(">")
            p.eat("(")
            params = []
            while not p.at(")"):
                # self forms
                if p.at("&"):
                    p.eat()
                    if p.kind() == "life":
                        p.eat()
                    p.opt("mut")
                    if p.at("self"):
                        p.eat()
                        params.append(("self", "&self"))
                        p.opt(",")
                        continue
                    raise Untranslatable("parameter pattern")
                p.opt("mut")
                nm = p.eat()
                if nm == "self":
                    params.append(("self", "self"))
                else:
                    p.eat(":")
                    params.append((nm, p.type_text([",", ")"])))
                if not p.opt(","):
                    break
            p.eat(")")
            ret = "()"
            if p.opt("->"):
                ret = p.type_text(["{", ";", "where"])
            if p.at("where"):
                p.skip_type(["{", ";"])
            if p.at(";"):
                continue
            if seen < nth_with_body:
                seen += 1
                continue
            body = p.block()
            return params, ret, body
    raise Untranslatable("function `%s` not found" % name)
