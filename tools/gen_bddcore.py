#!/usr/bin/env python3
"""Translator (translator route, group `bddcore`): regenerate Lean definitions of the core ROBDD
builder functions from the Rust source text on every run.

Output: lean/RsddModel/Model/GenBddCore.lean (namespace `Gen.BddCore`), compared with the
hand-written model by lean/RsddModel/Props/TieBddCore.lean (`Gen.BddCore.x = Bdd.x`, kernel-checked).

How it works
------------
1. a tokenizer and a recursive-descent / precedence-climbing parser for the Rust subset that the
   function bodies use (paths, calls, method calls, fields, index, unary/binary operators, `as`,
   `?`, closures, tuples, struct literals, blocks, `unsafe` blocks, `let` with patterns, `if`,
   `if let`, `match` with or-patterns / struct patterns / guards, `return`, `for`, macros);
2. a continuation-passing symbolic translation of the parsed body into a Lean term:
   * early `return`s become the value of the enclosing branch (the continuation of the statement
     is placed in the other branches),
   * pure `let`s are substituted (Lean binder names are made unique, so shadowing is harmless),
   * `&self` state (`RefCell` apply cache, the `&mut HashMap` memo, the table of an IteTable
     adapter) is threaded explicitly exactly as the hand-written model does it,
   * recursion is recursion on fuel (`ite`), on the structure of the pointer (`cond_with_alloc`)
     or on `total - current` (`smooth_helper`), as in the model,
   * a `match` on a pointer / standard triple / `Option` / tuple becomes a Lean `match`; inside an
     arm the matched Rust variable denotes the pattern term (so `bdd.low_raw()` in the
     `Reg(node) | Compl(node)` arm is the bound `lo`).
   Nothing is compared with stored text: every operand, branch, guard, comparison, cache key and
   negation of the generated term comes from the parsed source.
3. a function outside the grammar falls back alone: its generated name becomes an `abbrev` of
   the hand-written definition and its status is UNTRANSLATED.

TRUSTED MAPPING TABLE (Rust name  ->  Lean), part of the trusted base
---------------------------------------------------------------------
pointer shape     BddPtr::PtrTrue / PtrFalse / Reg(n) / Compl(n)   -> Ptr.tru / Ptr.fls / Ptr.node false v lo hi /
                  Ptr.node true v lo hi;  `Reg(n) | Compl(n)` -> Ptr.node c v lo hi (fresh c)
                  n.var / n.low / n.high, BddNode::new(v,l,h)      -> the components v / lo / hi (raw children)
                  BddPtr::true_ptr() / false_ptr()                 -> Ptr.tru / Ptr.fls
accessors on an   p.neg() / is_neg() / is_true() / is_false()      -> Ptr.neg p / Ptr.isNeg p / Ptr.isTrue p / Ptr.isFalse p
arbitrary pointer p.var_safe() / p.var()                           -> Ptr.top? p
accessors on a    low_raw / high_raw / is_neg / low / high /       -> lo / hi / c / if c then lo.neg else lo / if c then hi.neg else hi /
KNOWN node        is_true / is_false / var_safe / var              -> false / false / some v   (justified by the accessor ties, item 9)
(Ptr.node c v lo hi)
standard triples  Ite::IteChoice{f,g,h} / IteComplChoice{f,g,h} /  -> Ite.choice f g h / Ite.complChoice f g h / Ite.const p
                  IteConst(p); Ite::new(o,f,g,h)                   -> Ite.new o f g h
                  ite.is_compl_choice()                            -> true / false on a known constructor, otherwise a match
variable order    self.order.borrow().lt(a,b)                      -> lvl a < lvl b         (VarOrder::lt is itself tied: orderLt)
                  self.order.borrow().get(v), self.get(v),         -> lvl v                 (VarOrder::get is itself tied: orderGet)
                  self.var_to_pos[v]
                  self.order.borrow().var_at_level(l), self.pos_to_var[l] -> varAt l
                  self.order.borrow().first_essential(&a,&b,&c)    -> Gen.BddCore.firstEssential lvl a b c  (Option; `none` = panic)
                  self.first(a,b)                                  -> Gen.BddCore.first lvl a b
                  VarLabel::new / new_usize / .value() / .value_usize() / `as usize` / `as u64` -> identity (labels are Nat)
unique table      tbl.get_or_insert(node)                          -> identity on the node (node identity is structure; C02)
                  self.get_or_insert(node)                         -> Gen.BddCore.mkNode v lo hi
apply cache       self.apply_table.borrow().hash(&i)               -> a token that must be passed with the same binding `i` (else UNTRANSLATED)
                  self.apply_table.borrow().get(i, hash)           -> Bdd.cacheGet C s i        (both adapters are tied to it: cacheGetAll/Lru)
                  self.apply_table.borrow_mut().insert(i, r, hash) -> s := Bdd.cacheInsert C s i r (both adapters are tied: cacheInsertAll/Lru)
                  (in an adapter) self.table.get(&k [,hash])       -> C.get s k ;  self.table.insert(k, v [,hash]) -> s := C.insert s k v
conditioning memo cache.get(&k) / cache.insert(k, v) / HashMap::new() -> Memo.get m k / m := (k, v) :: m / []
overrides         a default method of `BottomUpBuilder` translated from builder/mod.rs (`or`, `compose`) is first looked up in the BDD
                  impl block of builder/bdd/builder.rs; an override there is translated instead (status says so)
sibling functions self.condition_essential / self.ite (checked to forward to ite_helper) / self.cond_with_alloc /
                  self.cond_helper / self.condition / self.and / or / iff / xor / exists / negate / var / smooth_helper
                                                                   -> the generated Gen.BddCore definitions
ignored           self.stats.borrow_mut().num_recursive_calls += 1, debug_assert!, clear_scratch(), `&`, `&mut`, `*`,
                  .clone() / .cloned() / .copied(), `unsafe { }`
loops             `let mut acc = e; for [&]x in xs { acc = ..; } acc`  -> an auxiliary function `<name>_loop`, structurally recursive on the list
guarded match     a `match` on one pointer with `if` guards        -> the four pointer shapes are enumerated, the arms resolved in source order
smooth_helper     recursion measure emitted: (total - current, is_neg(bdd)); Lean checks the decrease (`decreasing_by`)
helper functions  a call of a small private `fn` of the same file (e.g. `cache_key`)  -> its body is translated in place
Option / Result   Some / None / Ok / Err with a known constructor are matched statically (the continuation is placed in each arm);
                  .map / .and_then / .map_or / .unwrap_or / .is_some / .is_none / .or_else / `?`  -> Option.map / bind / getD / isSome / …
                  `<`, `>`, `.max` on Option<usize>                 -> Gen.BddCore.optLt / optMax (None is least; defined in the prelude)
iterators         [a, b, c] / .iter() / .into_iter() / .flatten() / .map / .filter / .any / .all / .rev / .take / .skip / .sum / .count /
                  .find / .position / .min_by_key / .max_by_key / .collect -> List literals / filterMap id / List.map / filter / any / all /
                  reverse / take / drop / sum / length / find? / Gen.BddCore.position / minByKey (first minimum) / maxByKey (last maximum)
                  order.between_iter(a, b)                          -> ((List.range (b - a)).map (fun i => varAt (a + i))).reverse
                  m.assignment_iter() (PartialModel), lit.label() / lit.polarity()  -> the list of pairs, .1 / .2
                  `break` / `continue` in a translated `for`         -> leave with / re-enter with the current accumulator
inverse map       a VarOrder function that reads `pos_to_var` gets the extra parameter `varAt` (its type then differs from the model's)
elaboration guard the generated file is elaborated once (`lake env lean`); a definition on an error line falls back to its alias
                  (`UNTRANSLATED … does not elaborate`); a definition that elaborates but differs still breaks its tie
local tables      `let mut cache = HashMap::new()` is a value of type Bdd.Memo ([]); `cache.get(&k)` / `cache.insert(k, v)` /
                  `self.cond_with_alloc(x, l, v, &mut cache)` read and re-bind the local variable; a `for` loop threads every
                  assigned local and every local table it mentions (several loop-carried variables -> a tuple result)
more iterators    .filter_map / .fold(init, |acc, x| ..) / .max() / .min() / .last() / .next() / .chain(..)  -> List.filterMap / foldl /
                  Gen.BddCore.listMax / listMin / getLast? / head? / ++ ;  order.in_order_iter() / reverse_in_order_iter() ->
                  (List.range numVars).map varAt [reversed];  compound assignment `x += e` on locals
new state         a builder field that is not one of order / apply_table / compute_table / stats (e.g. `smooth_table`), or
                  `order.num_vars()` in a function whose model has no such parameter: the body is still read to the end (map-like
                  methods get / insert / contains_key / push / len / clear on the field are accepted), then the function keeps its
                  alias and the status is `DIFFERS (new state): …` (treated like a failed tie by the orchestrator)
partiality        panic!(..) / .unwrap() on none                   -> `none` in a function whose model returns Option, otherwise UNTRANSLATED
"""
import os, re, sys, traceback

ROOT = os.path.dirname(os.path.dirname(os.path.abspath(__file__)))
REPO = os.environ.get("VERIF_REPO", "/repo")
OUT = os.path.join(ROOT, "lean", "RsddModel", "Model", "GenBddCore.lean")


class Untranslatable(Exception):
    pass


class Differs(Exception):
    """the whole body was read, but it takes / keeps state or parameters the model has no counterpart for"""
    pass


# =============================================================== tokenizer
def strip_comments(s):
    out, i, n = [], 0, len(s)
    while i < n:
        c = s[i]
        if c == '"':
            j = i + 1
            while j < n and s[j] != '"':
                j += 2 if s[j] == "\\" else 1
            out.append(s[i:j + 1])
            i = j + 1
        elif s.startswith("//", i):
            while i < n and s[i] != "\n":
                i += 1
        elif s.startswith("/*", i):
            j = s.find("*/", i + 2)
            i = n if j < 0 else j + 2
        else:
            out.append(c)
            i += 1
    return "".join(out)


TOK = re.compile(r"""
    (?P<str>"(?:[^"\\]|\\.)*")
  | (?P<life>'[A-Za-z_][A-Za-z0-9_]*(?!'))
  | (?P<chr>'(?:[^'\\]|\\.)')
  | (?P<num>\d[\d_]*(?:\.\d+)?(?:[uif]\d+|usize|isize)?)
  | (?P<id>[A-Za-z_][A-Za-z0-9_]*)
  | (?P<op>=>|==|!=|<=|>=|&&|\|\||::|->|\+=|-=|\*=|\.\.=|\.\.|[(){}\[\],.!:;=+\-*/%<>&|_?#^@$])
""", re.X)


def tokenize(s):
    s = strip_comments(s)
    out, i, n = [], 0, len(s)
    while i < n:
        if s[i].isspace():
            i += 1
            continue
        m = TOK.match(s, i)
        if not m:
            raise Untranslatable("cannot tokenize at: " + s[i:i + 30].replace("\n", " "))
        kind = m.lastgroup
        out.append((kind, m.group(0)))
        i = m.end()
    return out


OPEN = {"(": ")", "{": "}", "[": "]"}
CLOSE = {")", "}", "]"}


def match_close(toks, i):
    """toks[i] is an opening delimiter; return the index of its closing delimiter"""
    depth = 0
    for j in range(i, len(toks)):
        t = toks[j][1]
        if toks[j][0] == "op" and t in OPEN:
            depth += 1
        elif toks[j][0] == "op" and t in CLOSE:
            depth -= 1
            if depth == 0:
                return j
    raise Untranslatable("unbalanced delimiters")


def find_fns(toks, name):
    """all `fn name` items: list of dicts(header, params(tokens), body(tokens))"""
    res = []
    headers = []  # stack of (close_index, header_text)
    i, n = 0, len(toks)
    while i < n:
        while headers and i > headers[-1][0]:
            headers.pop()
        k, t = toks[i]
        if k == "id" and t in ("impl", "trait") and (i == 0 or toks[i - 1][1] not in ("::",)):
            j = i
            while j < n and toks[j][1] not in ("{", ";"):
                j += 1
            if j < n and toks[j][1] == "{":
                headers.append((match_close(toks, j), " ".join(x[1] for x in toks[i:j])))
                i = j + 1
                continue
        if k == "id" and t == "fn" and i + 1 < n and toks[i + 1][1] == name:
            j = i + 2
            if toks[j][1] == "<":  # generics
                depth = 0
                while True:
                    if toks[j][1] == "<":
                        depth += 1
                    elif toks[j][1] == ">":
                        depth -= 1
                        if depth == 0:
                            break
                    j += 1
                j += 1
            if toks[j][1] != "(":
                i += 1
                continue
            pc = match_close(toks, j)
            params = toks[j + 1:pc]
            b = pc + 1
            while b < n and toks[b][1] not in ("{", ";"):
                b += 1
            if b < n and toks[b][1] == "{":
                bc = match_close(toks, b)
                res.append(dict(header=headers[-1][1] if headers else "", params=params,
                                ret=" ".join(x[1] for x in toks[pc + 1:b]), body=toks[b:bc + 1]))
                i = b + 1  # descend: nested fns are found too
                continue
        i += 1
    return res


def param_names(ptoks):
    """names of the parameters (self excluded), in order"""
    names, depth, cur = [], 0, []
    for k, t in ptoks + [("op", ",")]:
        if t in ("(", "[", "<", "{"):
            depth += 1
        elif t in (")", "]", ">", "}"):
            depth -= 1
        if t == "," and depth == 0:
            if cur:
                texts = [x[1] for x in cur]
                if "self" in texts[:4] and ":" not in texts:
                    pass
                else:
                    c = texts.index(":") if ":" in texts else len(texts)
                    nm = [x for x in texts[:c] if x not in ("mut", "&", "ref")]
                    if len(nm) != 1:
                        raise Untranslatable("parameter pattern " + " ".join(texts))
                    names.append((nm[0], " ".join(texts[c + 1:])))
            cur = []
        else:
            cur.append((k, t))
    return names


# =============================================================== parser
class Parser:
    def __init__(self, toks):
        self.t, self.i = toks, 0

    def peek(self, k=0):
        j = self.i + k
        return self.t[j][1] if j < len(self.t) else None

    def kind(self, k=0):
        j = self.i + k
        return self.t[j][0] if j < len(self.t) else None

    def eat(self, x=None):
        tok = self.peek()
        if tok is None or (x is not None and tok != x):
            raise Untranslatable("parse: expected %r, found %r (token %d)" % (x, tok, self.i))
        self.i += 1
        return tok

    def at(self, x):
        return self.peek() == x

    def accept(self, x):
        if self.peek() == x:
            self.i += 1
            return True
        return False

    # ---- types are skipped
    def skip_type(self, stops):
        depth = 0
        while True:
            t = self.peek()
            if t is None:
                return
            if depth == 0 and t in stops:
                return
            if t in ("(", "[", "<"):
                depth += 1
            elif t in (")", "]", ">"):
                if depth == 0:
                    return
                depth -= 1
            elif t == "->":
                pass
            self.i += 1

    def skip_generic_args(self):
        # at `<`
        depth = 0
        while True:
            t = self.eat()
            if t == "<":
                depth += 1
            elif t == ">":
                depth -= 1
                if depth == 0:
                    return

    # ---- patterns
    def pattern(self):
        alts = [self.pattern1()]
        while self.at("|"):
            self.eat("|")
            alts.append(self.pattern1())
        return alts[0] if len(alts) == 1 else ("por", alts)

    def pattern1(self):
        t = self.peek()
        if t == "_":
            self.eat()
            return ("pwild",)
        if t == "&":
            self.eat()
            self.accept("mut")
            return self.pattern1()
        if t in ("ref", "mut"):
            self.eat()
            return self.pattern1()
        if t == "(":
            self.eat()
            items = []
            while not self.at(")"):
                items.append(self.pattern())
                if not self.accept(","):
                    break
            self.eat(")")
            return items[0] if len(items) == 1 else ("ptuple", items)
        if t == "[":
            self.eat()
            items = []
            while not self.at("]"):
                items.append(self.pattern())
                if not self.accept(","):
                    break
            self.eat("]")
            return ("pslice", items)
        if self.kind() == "num" or t in ("true", "false"):
            self.eat()
            return ("plit", t)
        if self.kind() == "id":
            segs = [self.eat()]
            while self.at("::"):
                self.eat()
                segs.append(self.eat())
            if self.at("("):
                self.eat()
                items = []
                while not self.at(")"):
                    items.append(self.pattern())
                    if not self.accept(","):
                        break
                self.eat(")")
                return ("pts", segs, items)
            if self.at("{"):
                self.eat()
                fields, rest = [], False
                while not self.at("}"):
                    if self.at(".."):
                        self.eat()
                        rest = True
                    else:
                        self.accept("ref")
                        self.accept("mut")
                        f = self.eat()
                        if self.accept(":"):
                            fields.append((f, self.pattern()))
                        else:
                            fields.append((f, ("pbind", f)))
                    if not self.accept(","):
                        break
                self.eat("}")
                return ("pstruct", segs, fields, rest)
            if len(segs) == 1 and (segs[0][0].islower() or segs[0][0] == "_"):
                return ("pbind", segs[0])
            return ("ppath", segs)
        raise Untranslatable("parse: pattern starts with %r" % t)

    # ---- blocks and statements
    def block(self):
        self.eat("{")
        stmts = []
        while not self.at("}"):
            if self.accept(";"):
                continue
            if self.at("#"):
                raise Untranslatable("attribute inside a body")
            if self.at("let"):
                self.eat()
                pat = self.pattern()
                if self.accept(":"):
                    self.skip_type(("=", ";"))
                init = None
                if self.accept("="):
                    init = self.expr()
                if self.at("else"):
                    raise Untranslatable("let-else")
                self.eat(";")
                stmts.append(("let", pat, init))
                continue
            e = self.expr_stmt()
            if self.accept(";"):
                stmts.append(("expr", e, True))
            elif self.at("}"):
                stmts.append(("expr", e, False))
            elif e[0] in ("if", "match", "block", "for", "while", "loop"):
                stmts.append(("expr", e, True))
            else:
                raise Untranslatable("parse: expected `;` or `}` after expression, found %r" % self.peek())
        self.eat("}")
        tail = None
        if stmts and stmts[-1][0] == "expr" and not stmts[-1][2]:
            tail = stmts.pop()[1]
        return ("block", stmts, tail)

    def expr_stmt(self):
        # block-like expressions in statement position end the statement
        if self.peek() in ("if", "match", "for", "while", "loop", "unsafe", "{"):
            e = self.primary(no_struct=False)
            if self.peek() in (".", "?"):
                e = self.postfix(e, False)
                return self.binary_rest(e, 0, False)
            return e
        return self.expr()

    # ---- expressions
    BIN = [("||",), ("&&",), ("==", "!=", "<", ">", "<=", ">="), ("|",), ("^",), ("&",), ("+", "-"), ("*", "/", "%")]

    def expr(self, no_struct=False):
        if self.at("return"):
            self.eat()
            if self.peek() in (";", "}", ",", ")"):
                return ("return", None)
            return ("return", self.expr(no_struct))
        if self.at("break") or self.at("continue"):
            t = self.eat()
            if self.peek() not in (";", "}", ","):
                raise Untranslatable("labelled break / break with a value")
            return (t,)
        if self.at("|") or self.at("||") or self.at("move"):
            return self.closure(no_struct)
        lhs = self.binary(0, no_struct)
        if self.peek() in ("=", "+=", "-=", "*="):
            op = self.eat()
            rhs = self.expr(no_struct)
            return ("assign", op, lhs, rhs)
        return lhs

    def closure(self, no_struct):
        self.accept("move")
        params = []
        if self.accept("||"):
            pass
        else:
            self.eat("|")
            while not self.at("|"):
                p = self.pattern1()
                if self.accept(":"):
                    self.skip_type((",", "|"))
                params.append(p)
                if not self.accept(","):
                    break
            self.eat("|")
        if self.accept("->"):
            self.skip_type(("{",))
        body = self.expr(no_struct)
        return ("closure", params, body)

    def binary(self, lvl, no_struct):
        if lvl == len(self.BIN):
            return self.cast(no_struct)
        lhs = self.binary(lvl + 1, no_struct)
        return self.binary_rest_level(lhs, lvl, no_struct)

    def binary_rest_level(self, lhs, lvl, no_struct):
        while self.peek() in self.BIN[lvl] and not (self.peek() == "|" and False):
            op = self.eat()
            rhs = self.binary(lvl + 1, no_struct)
            lhs = ("binary", op, lhs, rhs)
        return lhs

    def binary_rest(self, lhs, lvl, no_struct):
        for l in range(len(self.BIN) - 1, lvl - 1, -1):
            lhs = self.binary_rest_level(lhs, l, no_struct)
        return lhs

    def cast(self, no_struct):
        e = self.unary(no_struct)
        while self.at("as"):
            self.eat()
            self.skip_type((";", ",", ")", "]", "}", "{", "==", "!=", "<", ">", "<=", ">=", "&&", "||", "+", "-", "*", "/", "%", "=", "=>", "?", "."))
            e = ("cast", e)
        return e

    def unary(self, no_struct):
        t = self.peek()
        if t == "!":
            self.eat()
            return ("unary", "!", self.unary(no_struct))
        if t == "-":
            self.eat()
            return ("unary", "-", self.unary(no_struct))
        if t == "&" or t == "&&":
            self.eat()
            self.accept("mut")
            return ("ref", self.unary(no_struct))
        if t == "*":
            self.eat()
            return ("ref", self.unary(no_struct))
        return self.postfix(self.primary(no_struct), no_struct)

    def args(self):
        self.eat("(")
        a = []
        while not self.at(")"):
            a.append(self.expr())
            if not self.accept(","):
                break
        self.eat(")")
        return a

    def postfix(self, e, no_struct):
        while True:
            t = self.peek()
            if t == ".":
                self.eat()
                name = self.eat()
                if self.at("::"):
                    self.eat()
                    self.skip_generic_args()
                if self.at("("):
                    e = ("mcall", e, name, self.args())
                else:
                    e = ("field", e, name)
            elif t == "(":
                e = ("call", e, self.args())
            elif t == "[":
                self.eat()
                ix = self.expr()
                self.eat("]")
                e = ("index", e, ix)
            elif t == "?":
                self.eat()
                e = ("try", e)
            else:
                return e

    def primary(self, no_struct):
        t, k = self.peek(), self.kind()
        if t == "(":
            self.eat()
            items, trailing = [], False
            while not self.at(")"):
                items.append(self.expr())
                trailing = False
                if self.accept(","):
                    trailing = True
                else:
                    break
            self.eat(")")
            if len(items) == 1 and not trailing:
                return items[0]
            return ("tuple", items)
        if t == "[":
            self.eat()
            items = []
            while not self.at("]"):
                items.append(self.expr())
                if not self.accept(","):
                    break
            self.eat("]")
            return ("array", items)
        if t == "{":
            return self.block()
        if t == "unsafe":
            self.eat()
            return self.block()
        if t == "if":
            return self.if_expr()
        if t == "match":
            self.eat()
            scrut = self.expr(no_struct=True)
            self.eat("{")
            arms = []
            while not self.at("}"):
                self.accept("|")
                pat = self.pattern()
                guard = None
                if self.accept("if"):
                    guard = self.expr(no_struct=True)
                self.eat("=>")
                body = self.expr()
                arms.append((pat, guard, body))
                if not self.accept(","):
                    if body[0] not in ("block", "if", "match"):
                        break
            self.eat("}")
            return ("match", scrut, arms)
        if t == "for":
            self.eat()
            pat = self.pattern()
            self.eat("in")
            it = self.expr(no_struct=True)
            body = self.block()
            return ("for", pat, it, body)
        if t in ("while", "loop"):
            raise Untranslatable("`%s` loop" % t)
        if k == "num":
            self.eat()
            return ("num", re.sub(r"(?:[uif]\d+|usize|isize)$", "", t).replace("_", ""))
        if k == "str":
            self.eat()
            return ("str", t)
        if t in ("true", "false"):
            self.eat()
            return ("bool", t)
        if k == "id":
            segs = [self.eat()]
            while self.at("::"):
                self.eat()
                if self.at("<"):
                    self.skip_generic_args()
                else:
                    segs.append(self.eat())
            if self.at("!") and self.peek(1) in ("(", "[", "{"):
                self.eat("!")
                j = match_close(self.t, self.i)
                inner = self.t[self.i + 1:j]
                self.i = j + 1
                return ("macro", segs[-1], inner)
            if self.at("{") and not no_struct and segs[-1][0].isupper():
                self.eat("{")
                fields = []
                while not self.at("}"):
                    if self.at(".."):
                        raise Untranslatable("struct update syntax")
                    f = self.eat()
                    if self.accept(":"):
                        fields.append((f, self.expr()))
                    else:
                        fields.append((f, ("path", [f])))
                    if not self.accept(","):
                        break
                self.eat("}")
                return ("struct", segs, fields)
            return ("path", segs)
        raise Untranslatable("parse: expression starts with %r" % t)

    def if_expr(self):
        self.eat("if")
        if self.accept("let"):
            pat = self.pattern()
            self.eat("=")
            scrut = self.expr(no_struct=True)
            cond = ("letcond", pat, scrut)
        else:
            cond = self.expr(no_struct=True)
        then = self.block()
        els = None
        if self.accept("else"):
            els = self.if_expr() if self.at("if") else self.block()
        return ("if", cond, then, els)


def parse_body(body_toks):
    p = Parser(body_toks)
    b = p.block()
    if p.peek() is not None:
        raise Untranslatable("trailing tokens after the body")
    return b


# =============================================================== symbolic values
class L:
    """a Lean term; ty in ptr, bool (Bool term), prop (decidable Prop), nat, opt, ite, unit, any"""
    def __init__(self, text, ty="any"):
        self.text, self.ty = text, ty


class KP:
    """a pointer known to be a node: Ptr.node c v lo hi (c a Lean Bool term)"""
    def __init__(self, c, v, lo, hi):
        self.c, self.v, self.lo, self.hi = c, v, lo, hi


class KI:
    """a standard triple with a known constructor"""
    def __init__(self, kind, comps):
        self.kind, self.comps = kind, comps  # kind: choice / complChoice / const


class OptSome:
    """`Some(inner)` with an arbitrary symbolic inner value"""
    def __init__(self, inner):
        self.inner = inner


class ResV:
    """`Ok(inner)` / `Err(inner)`"""
    def __init__(self, kind, inner):
        self.kind, self.inner = kind, inner


class Node:
    def __init__(self, v, lo, hi):
        self.v, self.lo, self.hi = v, lo, hi


class Tup:
    def __init__(self, items):
        self.items = items


class Clos:
    def __init__(self, params, body, env):
        self.params, self.body, self.env = params, body, env


class Marker:
    def __init__(self, name, extra=None):
        self.name, self.extra = name, extra


_ORIGIN = [0]


def origin_of(v):
    """identity of the binding a value came from; preserved when a match refines the variable"""
    o = getattr(v, "origin", None)
    if o is None:
        _ORIGIN[0] += 1
        o = v.origin = _ORIGIN[0]
    return o


UNIT = L("()", "unit")
ATOM = re.compile(r"^[A-Za-z_][\w.?']*$|^\d+$")


def balanced_wrapped(t):
    if not (t.startswith("(") and t.endswith(")")) and not (t.startswith("[") and t.endswith("]")):
        return False
    depth = 0
    for i, ch in enumerate(t):
        if ch in "([":
            depth += 1
        elif ch in ")]":
            depth -= 1
            if depth == 0 and i != len(t) - 1:
                return False
    return True


def par(t):
    return t if ATOM.match(t) or balanced_wrapped(t) else "(" + t + ")"


def ap(fn, *args):
    return fn + "".join(" " + par(a) for a in args)


def lean(v):
    if isinstance(v, L):
        return v.text
    if isinstance(v, KP):
        return ap("Bdd.Ptr.node", v.c, v.v, v.lo, v.hi)
    if isinstance(v, KI):
        return ap("Bdd.Ite." + v.kind, *v.comps)
    if isinstance(v, Tup):
        return "(" + ", ".join(lean(x) for x in v.items) + ")"
    if isinstance(v, OptSome):
        return "some " + par(lean(v.inner))
    raise Untranslatable("a %s value is used as a term" % type(v).__name__)


def ty_of(v):
    if isinstance(v, L):
        return v.ty
    if isinstance(v, KP):
        return "ptr"
    if isinstance(v, KI):
        return "ite"
    if isinstance(v, OptSome):
        return "optnat" if ty_of(v.inner) == "nat" else "opt"
    return "any"


def as_prop(v):
    t = lean(v)
    if ty_of(v) == "prop":
        return t
    return par(t) + " = true"


def mk_if(c, a, b):
    """value-level if; c a value of type bool/prop"""
    ct = lean(c)
    if ct == "true":
        return a
    if ct == "false":
        return b
    if isinstance(a, Tup) and isinstance(b, Tup) and len(a.items) == len(b.items):
        return Tup([mk_if(c, x, y) for x, y in zip(a.items, b.items)])
    if isinstance(a, Node) and isinstance(b, Node):
        return Node(lean(mk_if(c, L(a.v), L(b.v))), lean(mk_if(c, L(a.lo), L(b.lo))), lean(mk_if(c, L(a.hi), L(b.hi))))
    if a is UNIT and b is UNIT:
        return UNIT
    ty = ty_of(a) if ty_of(a) == ty_of(b) else "any"
    return L("if %s then %s else %s" % (ct, lean(a), lean(b)), ty)


PLACEHOLDER = "\u0000HOLE\u0000"


_CUR = [None]
_TRS = []


class Ctx:
    def __init__(self, env, state):
        self.env, self.state = env, state

    def bind(self, name, v):
        e = dict(self.env)
        e[name] = v
        return Ctx(e, self.state)

    def with_state(self, s):
        return Ctx(self.env, s)


# =============================================================== the translator
class Tr:
    """one instance per translated function"""

    def __init__(self, mode, self_kind="builder", ret_option=False, rec=None, fuel=True):
        self.mode = mode            # pure | opt | optstate | pairstate | stateonly
        self.self_kind = self_kind  # builder | order | adapter
        self.ret_option = ret_option
        self.rec = rec or {}
        self.used = set()
        self.aux = []               # auxiliary definitions (loops)
        self.loopname = None
        self.closure_alias = []
        self.ret_stack = []
        self.loop_ctl = []
        self.inline_depth = 0
        self.uses_varAt = False
        self.new_state = []         # builder fields / order parameters read by the source that the model has no slot for
        self.file = _CUR[0]
        self.cur_call = None
        _TRS.append(self)

    # ---- names
    def fresh(self, base):
        base = re.sub(r"[^A-Za-z0-9_]", "", base) or "x"
        if base in ("fun", "match", "with", "if", "then", "else", "let", "do", "at", "from", "have", "show", "end", "open", "in", "by", "def", "Type", "Prop", "Sort", "lvl", "varAt", "C", "fuel", "s", "some", "none", "true", "false", "ite"):
            base = base + "_"
        n, k = base, 0
        while n in self.used:
            k += 1
            n = "%s_%d" % (base, k)
        self.used.add(n)
        return n

    # ---- function results
    def ret(self, ctx, v):
        if self.ret_stack:
            return self.ret_stack[-1](ctx, v)
        if self.mode == "noreturn":
            raise Untranslatable("`return` inside a loop body")
        if self.mode == "pure":
            return lean(v)
        if self.mode == "opt":
            return lean(OptSome(v))
        if self.mode == "optstate":
            return "some (%s, %s)" % (ctx.state, lean(v))
        if self.mode == "pairstate":
            return "(%s, %s)" % (ctx.state, lean(v))
        if self.mode == "stateonly":
            if v is not UNIT:
                raise Untranslatable("a value is returned from a unit function")
            return ctx.state
        raise Untranslatable("mode")

    def fail(self, why):
        if self.mode in ("opt", "optstate"):
            return "none"
        raise Untranslatable("the function can panic (%s) but its model is total" % why)

    # ---- purity probe
    def try_pure(self, run, ctx):
        """run(k) translates something with continuation k; if the result is exactly one call of k with an
        unchanged context and no surrounding control flow, return the value, else None"""
        box = []

        def k(c, v):
            box.append((c, v))
            return PLACEHOLDER
        used0, aux0 = set(self.used), list(self.aux)
        try:
            text = run(k)
        except _Impure:
            text = None
        if text == PLACEHOLDER and len(box) == 1 and box[0][0].state == ctx.state and box[0][0].env == ctx.env:
            return box[0][1]
        self.used, self.aux = used0, aux0
        return None

    # ---- blocks
    def tr_block(self, blk, ctx, k, hint=None):
        assert blk[0] == "block"
        outer = ctx

        def k2(c, v):
            # leave the scope: keep assignments to outer variables and the state, drop inner lets
            env = dict(outer.env)
            for n in outer.env:
                if n in c.env:
                    env[n] = c.env[n]
            return k(Ctx(env, c.state), v)
        return self.tr_stmts(blk[1], blk[2], ctx, k2, hint)

    def tr_stmts(self, stmts, tail, ctx, k, hint=None):
        if not stmts:
            if tail is None:
                return k(ctx, UNIT)
            return self.tr_expr(tail, ctx, k, hint)
        st, rest = stmts[0], stmts[1:]
        if st[0] == "let":
            _, pat, init = st
            if init is None:
                raise Untranslatable("let without initialiser")
            h = pat[1] if pat[0] == "pbind" else None
            return self.tr_expr(init, ctx, lambda c, v: self.tr_stmts(rest, tail, self.bind_pat(pat, v, c), k, hint), h)
        if st[0] == "expr":
            return self.tr_expr(st[1], ctx, lambda c, v: self.tr_stmts(rest, tail, c, k, hint))
        raise Untranslatable("statement " + st[0])

    def bind_pat(self, pat, v, ctx):
        """irrefutable let patterns"""
        if pat[0] == "pbind":
            return ctx.bind(pat[1], v)
        if pat[0] == "pwild":
            return ctx
        if pat[0] == "ptuple":
            if isinstance(v, Tup) and len(v.items) == len(pat[1]):
                for p, x in zip(pat[1], v.items):
                    ctx = self.bind_pat(p, x, ctx)
                return ctx
            raise Untranslatable("tuple pattern against a non-tuple value")
        raise Untranslatable("let pattern " + pat[0])

    # ---- expressions
    def tr_args(self, args, ctx, k):
        def go(i, c, acc):
            if i == len(args):
                return k(c, acc)
            return self.tr_expr(args[i], c, lambda c2, v: go(i + 1, c2, acc + [v]))
        return go(0, ctx, [])

    def pure(self, e, ctx):
        v = self.try_pure(lambda k: self.tr_expr(e, ctx, k), ctx)
        if v is None:
            raise Untranslatable("an operand with control flow or effects where a pure one is required")
        return v

    def tr_expr(self, e, ctx, k, hint=None):
        tag = e[0]
        if tag == "path":
            return k(ctx, self.path_value(e[1], ctx))
        if tag == "bool":
            return k(ctx, L(e[1], "bool"))
        if tag == "num":
            return k(ctx, L(e[1], "nat"))
        if tag == "str":
            return k(ctx, L(e[1], "str"))
        if tag in ("ref", "cast"):
            return self.tr_expr(e[1], ctx, k, hint)
        if tag == "tuple":
            if not e[1]:
                return k(ctx, UNIT)
            return self.tr_args(e[1], ctx, lambda c, vs: k(c, Tup(vs)))
        if tag == "array":
            def arr(c, vs):
                tys = set(ty_of(x) for x in vs)
                lt = {"ptr": "list", "nat": "natlist", "opt": "optlist", "optnat": "optlist"}.get(tys.pop() if len(tys) == 1 else "", "anylist")
                return k(c, L("[" + ", ".join(lean(x) for x in vs) + "]", lt))
            return self.tr_args(e[1], ctx, arr)
        if tag == "block":
            return self.tr_block(e, ctx, k, hint)
        if tag == "closure":
            for ast_, val in self.closure_alias:
                if ast_ == e:
                    return k(ctx, val)
            return k(ctx, Clos(e[1], e[2], ctx.env))
        if tag == "return":
            if e[1] is None:
                return self.ret(ctx, UNIT)
            return self.tr_expr(e[1], ctx, lambda c, v: self.ret(c, v))
        if tag == "field":
            return self.tr_expr(e[1], ctx, lambda c, v: k(c, self.field(v, e[2])))
        if tag == "index":
            return self.tr_expr(e[1], ctx, lambda c, v: self.tr_expr(e[2], c, lambda c2, ix: k(c2, self.index(v, ix))))
        if tag == "unary":
            return self.tr_expr(e[2], ctx, lambda c, v: k(c, self.unop(e[1], v)))
        if tag == "binary":
            op = e[1]

            def after_l(c, a):
                if op in ("&&", "||"):
                    b = self.pure(e[3], c)
                    return k(c, self.binop(op, a, b))
                return self.tr_expr(e[3], c, lambda c2, b: k(c2, self.binop(op, a, b)))
            return self.tr_expr(e[2], ctx, after_l)
        if tag == "assign":
            return self.assign(e, ctx, k)
        if tag == "macro":
            return self.macro(e, ctx, k)
        if tag == "struct":
            return self.struct(e, ctx, k)
        if tag == "call":
            return self.call(e, ctx, k, hint)
        if tag == "mcall":
            def do_call(c2, rv, av):
                self.cur_call = e
                return self.method(rv, e[2], av, c2, k, hint)
            return self.tr_expr(e[1], ctx, lambda c, rv: self.tr_args(e[3], c, lambda c2, av: do_call(c2, rv, av)))
        if tag == "try":
            if not self.ret_option:
                raise Untranslatable("`?` in a function that does not return Option")
            return self.tr_expr(e[1], ctx, lambda c, v: self.opt_bind(v, c, k, hint, on_none="none"))
        if tag == "if":
            return self.tr_if(e, ctx, k, hint)
        if tag == "match":
            return self.tr_match(e[1], e[2], ctx, k, hint)
        if tag == "for":
            return self.tr_for(e, ctx, k)
        if tag in ("break", "continue"):
            if not self.loop_ctl:
                raise Untranslatable("`%s` outside a translated loop" % tag)
            return self.loop_ctl[-1][tag](ctx)
        raise Untranslatable("expression form " + tag)

    # ---- atoms
    CONST_PATHS = {
        "PtrTrue": L("Bdd.Ptr.tru", "ptr"), "PtrFalse": L("Bdd.Ptr.fls", "ptr"), "None": L("none", "opt"),
    }

    def path_value(self, segs, ctx):
        if len(segs) == 1:
            n = segs[0]
            if n in ctx.env:
                return ctx.env[n]
            if n == "self":
                return Marker("self")
        last = segs[-1]
        if last in self.CONST_PATHS and (len(segs) == 1 or segs[-2] in ("BddPtr", "Option")):
            return self.CONST_PATHS[last]
        raise Untranslatable("unknown name " + "::".join(segs))

    def field(self, v, name):
        if isinstance(v, Node) and name in ("var", "low", "high"):
            return L({"var": v.v, "low": v.lo, "high": v.hi}[name], "nat" if name == "var" else "ptr")
        if isinstance(v, Marker) and v.name == "self":
            return Marker(name)
        if isinstance(v, Marker) and v.name == "stats":
            return Marker("stats")
        if isinstance(v, Tup) and name.isdigit() and int(name) < len(v.items):
            return v.items[int(name)]
        raise Untranslatable("field ." + name)

    def index(self, v, ix):
        if isinstance(v, Marker) and v.name == "var_to_pos":
            return L(ap("lvl", lean(ix)), "nat")
        if isinstance(v, Marker) and v.name == "pos_to_var":
            self.uses_varAt = True
            return L(ap("varAt", lean(ix)), "nat")
        raise Untranslatable("indexing")

    def unop(self, op, v):
        if op == "!":
            t = lean(v)
            if t == "true":
                return L("false", "bool")
            if t == "false":
                return L("true", "bool")
            if ty_of(v) == "prop":
                return L("¬ " + par(t), "prop")
            return L("!" + par(t), "bool")
        raise Untranslatable("unary " + op)

    def binop(self, op, a, b):
        ta, tb = lean(a), lean(b)
        rel = {"==": "=", "!=": "≠", "<": "<", "<=": "≤", ">": ">", ">=": "≥"}
        if op in ("<", ">", "<=", ">=") and (ty_of(a) == "optnat" or ty_of(b) == "optnat"):
            lt = lambda x, y: ap("Gen.BddCore.optLt", x, y)
            txt = {"<": lt(ta, tb), ">": lt(tb, ta), "<=": "!" + par(lt(tb, ta)), ">=": "!" + par(lt(ta, tb))}[op]
            return L(txt, "bool")
        if op in rel:
            return L("%s %s %s" % (par(ta), rel[op], par(tb)), "prop")
        if op in ("&&", "||"):
            if ty_of(a) != "prop" and ty_of(b) != "prop":
                return L("%s %s %s" % (par(ta), op, par(tb)), "bool")
            return L("%s %s %s" % (par(as_prop(a)), "∧" if op == "&&" else "∨", par(as_prop(b))), "prop")
        if op in ("+", "-", "*", "/", "%"):
            return L("%s %s %s" % (par(ta), op, par(tb)), "nat")
        raise Untranslatable("binary " + op)

    def assign(self, e, ctx, k):
        _, op, lhs, rhs = e
        # self.stats.borrow_mut().num_recursive_calls += 1  : ignored
        root = lhs
        while root[0] in ("field", "mcall"):
            root = root[1]
        if root == ("path", ["self"]):
            probe = lhs
            names = []
            while probe[0] in ("field", "mcall"):
                names.append(probe[2])
                probe = probe[1]
            if "stats" in names:
                return k(ctx, UNIT)
            raise Untranslatable("assignment to a field of self")
        if lhs[0] == "path" and len(lhs[1]) == 1 and lhs[1][0] in ctx.env and op == "=":
            return self.tr_expr(rhs, ctx, lambda c, v: k(c.bind(lhs[1][0], v), UNIT), lhs[1][0])
        if lhs[0] == "path" and len(lhs[1]) == 1 and lhs[1][0] in ctx.env and op in ("+=", "-=", "*="):
            nm = lhs[1][0]
            return self.tr_expr(rhs, ctx, lambda c, v: k(c.bind(nm, self.binop(op[0], c.env[nm], v)), UNIT))
        raise Untranslatable("assignment")

    def macro(self, e, ctx, k):
        name = e[1]
        if name in ("debug_assert", "debug_assert_eq", "debug_assert_ne"):
            return k(ctx, UNIT)
        if name in ("panic", "unreachable", "unimplemented", "todo"):
            return self.fail(name + "!")
        if name == "matches":
            p = Parser(e[2])
            scrut = p.expr()
            p.eat(",")
            pat = p.pattern()
            if p.peek() is not None:
                raise Untranslatable("matches! with a guard")
            arms = [(pat, None, ("bool", "true")), (("pwild",), None, ("bool", "false"))]
            return self.tr_match(scrut, arms, ctx, k, None)
        raise Untranslatable("macro %s!" % name)

    def struct(self, e, ctx, k):
        segs, fields = e[1], e[2]
        if segs[-1] in ("IteChoice", "IteComplChoice") and [f for f, _ in fields] == ["f", "g", "h"]:
            kind = "choice" if segs[-1] == "IteChoice" else "complChoice"
            return self.tr_args([x for _, x in fields], ctx, lambda c, vs: k(c, KI(kind, [lean(x) for x in vs])))
        raise Untranslatable("struct literal " + "::".join(segs))

    # ---- calls of paths / closures
    def call(self, e, ctx, k, hint):
        fn, args = e[1], e[2]
        if fn[0] == "path":
            segs = fn[1]
            if len(segs) == 1 and segs[0] in ctx.env and isinstance(ctx.env[segs[0]], Clos):
                clo = ctx.env[segs[0]]
                return self.tr_args(args, ctx, lambda c, vs: self.apply_closure(clo, vs, c, k, hint))
            name = "::".join(segs[-2:]) if len(segs) >= 2 else segs[0]

            if len(segs) == 1 and self.file and segs[0] not in ("Some", "Ok", "Err", "Reg", "Compl"):
                cands = [f for f in find_fns(file_toks(self.file), segs[0]) if f["header"] == ""]
                if len(cands) == 1:
                    return self.tr_args(args, ctx, lambda c, vs: self.inline_call(cands[0], vs, c, k))

            def done(c, vs):
                return k(c, self.static_call(name, vs, c))
            return self.tr_args(args, ctx, done)
        raise Untranslatable("call of a computed function")

    def inline_call(self, f, vs, ctx, k):
        """a small private helper function of the same file: its body is translated in place"""
        names = [x[0] for x in param_names(f["params"])]
        if len(names) != len(vs) or self.inline_depth >= 3:
            raise Untranslatable("call of a helper function (arity / nesting)")
        body = parse_body(f["body"])
        depth = len(self.ret_stack)

        def done(c, v):
            saved = self.ret_stack[depth:]
            del self.ret_stack[depth:]
            self.inline_depth -= 1
            try:
                return k(Ctx(ctx.env, c.state), v)
            finally:
                self.inline_depth += 1
                self.ret_stack.extend(saved)
        self.ret_stack.append(done)
        self.inline_depth += 1
        try:
            return self.tr_block(body, Ctx(dict(zip(names, vs)), ctx.state), done)
        finally:
            self.inline_depth -= 1
            del self.ret_stack[depth:]

    def closure_lambda(self, clo, ctx, tys):
        """a closure as a Lean lambda; returns (text, type of the body)"""
        if len(clo.params) != len(tys):
            raise Untranslatable("closure arity")
        inner, xs = Ctx(dict(clo.env), ctx.state), []
        for p_, t_ in zip(clo.params, tys):
            if p_[0] == "pbind":
                x = self.fresh(p_[1])
                inner = inner.bind(p_[1], L(x, t_))
            elif p_[0] == "pwild":
                x = "_"
            else:
                raise Untranslatable("closure parameter pattern")
            xs.append(x)
        body = self.pure(clo.body, inner)
        bt = lean(body)
        if ty_of(body) == "prop":
            bt = "decide " + par(bt)
        return "fun %s => %s" % (" ".join(xs), bt), ("bool" if ty_of(body) == "prop" else ty_of(body))

    def apply_closure(self, clo, vs, ctx, k, hint):
        if len(vs) != len(clo.params):
            raise Untranslatable("closure arity")
        env = dict(clo.env)
        inner = Ctx(env, ctx.state)
        for p, v in zip(clo.params, vs):
            inner = self.bind_pat(p, v, inner)
        return self.tr_expr(clo.body, inner, lambda c, v: k(Ctx(ctx.env, c.state), v), hint)

    def static_call(self, name, vs, ctx):
        def ptr(v):
            return lean(v)
        if name in ("BddPtr::true_ptr", "T::true_ptr") and not vs:
            return L("Bdd.Ptr.tru", "ptr")
        if name in ("BddPtr::false_ptr", "T::false_ptr") and not vs:
            return L("Bdd.Ptr.fls", "ptr")
        if name == "BddNode::new" and len(vs) == 3:
            return Node(lean(vs[0]), lean(vs[1]), lean(vs[2]))
        if name in ("BddPtr::Reg", "Reg", "BddPtr::Compl", "Compl") and len(vs) == 1 and isinstance(vs[0], Node):
            n = vs[0]
            return KP("false" if name.endswith("Reg") else "true", n.v, n.lo, n.hi)
        if name in ("VarLabel::new", "VarLabel::new_usize") and len(vs) == 1:
            return vs[0]
        if name == "Some" and len(vs) == 1:
            return OptSome(vs[0])
        if name in ("Ok", "Err") and len(vs) == 1:
            return ResV(name.lower(), vs[0])
        if name == "Ite::new" and len(vs) == 4:
            o = vs[0]
            if not (isinstance(o, L) and o.ty == "order"):
                raise Untranslatable("the order argument of Ite::new is not the closure `o`")
            return L(ap("Bdd.Ite.new", o.text, *[lean(x) for x in vs[1:]]), "ite")
        if name == "Ite::IteConst" and len(vs) == 1:
            return KI("const", [lean(vs[0])])
        if name in ("HashMap::new", "FxHashMap::default", "HashMap::default", "HashMap::with_capacity") and len(vs) <= 1:
            return L("[]", "memo")
        raise Untranslatable("call of " + name)

    # ---- Option helpers
    def opt_bind(self, v, ctx, k, hint, on_none):
        """v : Option; continue with its content, `on_none` otherwise"""
        if isinstance(v, OptSome):
            return k(ctx, v.inner)
        t = lean(v)
        m = re.match(r"^some (.*)$", t)
        if m and (ATOM.match(m.group(1)) or balanced_wrapped(m.group(1))):
            return k(ctx, L(m.group(1)))
        x = self.fresh(hint or "x")
        body = k(ctx, L(x))
        return "(match %s with\n| none => %s\n| some %s => %s)" % (t, on_none, x, body)

    # ---- effects: calls that thread the state
    def effect_call(self, callee_text, ctx, k, hint):
        """callee_text applied to the current state returns the new state and a value"""
        s1 = self.fresh("s" if self.mode != "pairstate" else "m")
        x = self.fresh(hint or "r")
        body = k(ctx.with_state(s1), L(x, "ptr"))
        if self.mode == "optstate":
            if body == "some (%s, %s)" % (s1, x):
                return callee_text
            return "(match %s with\n| none => none\n| some (%s, %s) => %s)" % (callee_text, s1, x, body)
        if self.mode == "pairstate":
            if body == "(%s, %s)" % (s1, x):
                return callee_text
            return "(match %s with\n| (%s, %s) => %s)" % (callee_text, s1, x, body)
        raise Untranslatable("a state-threading call in a function without state")

    # ---- method calls
    def method(self, rv, name, av, ctx, k, hint):
        if isinstance(rv, Marker):
            return self.marker_method(rv, name, av, ctx, k, hint)
        if isinstance(rv, Clos):
            raise Untranslatable("method on a closure")
        if name in ("clone", "cloned", "copied", "borrow", "borrow_mut", "value", "value_usize", "into_iter", "iter", "to_owned") and not av:
            return k(ctx, rv)
        if name == "clear_scratch" and not av:
            return k(ctx, UNIT)
        if isinstance(rv, KP):
            c, v, lo, hi = rv.c, rv.v, rv.lo, rv.hi
            if not av:
                if name == "low_raw":
                    return k(ctx, L(lo, "ptr"))
                if name == "high_raw":
                    return k(ctx, L(hi, "ptr"))
                if name == "is_neg":
                    return k(ctx, L(c, "bool"))
                if name in ("is_true", "is_false", "is_const"):
                    return k(ctx, L("false", "bool"))
                if name == "low":
                    return k(ctx, mk_if(L(c, "bool"), L(ap("Bdd.Ptr.neg", lo), "ptr"), L(lo, "ptr")))
                if name == "high":
                    return k(ctx, mk_if(L(c, "bool"), L(ap("Bdd.Ptr.neg", hi), "ptr"), L(hi, "ptr")))
                if name in ("var_safe",) or (name == "var" and self.self_kind == "order"):
                    return k(ctx, OptSome(L(v, "nat")))
                if name == "neg":
                    return k(ctx, L(ap("Bdd.Ptr.neg", lean(rv)), "ptr"))
            raise Untranslatable("method .%s on a node pointer" % name)
        if isinstance(rv, KI):
            if name == "is_compl_choice" and not av:
                return k(ctx, L("true" if rv.kind == "complChoice" else "false", "bool"))
            raise Untranslatable("method .%s on a standard triple" % name)
        if isinstance(rv, OptSome):
            if name == "unwrap" and not av:
                return k(ctx, rv.inner)
            rv = L(lean(rv), ty_of(rv))
        if isinstance(rv, L) and rv.ty == "lit" and not av and name in ("label", "polarity", "get_label", "get_polarity"):
            return k(ctx, L(par(rv.text) + (".1" if "label" in name else ".2"), "nat" if "label" in name else "bool"))
        if isinstance(rv, L) and rv.ty == "memo":
            if name == "get" and len(av) == 1:
                return k(ctx, L(ap("Bdd.Memo.get", rv.text, lean(av[0])), "opt"))
            if name == "contains_key" and len(av) == 1:
                return k(ctx, L(ap("Option.isSome", ap("Bdd.Memo.get", rv.text, lean(av[0]))), "bool"))
            if name == "insert" and len(av) == 2:
                nm = self.local_var_of(self.cur_call[1], ctx)
                if nm is None:
                    raise Untranslatable("insert into a temporary table")
                return k(ctx.bind(nm, L("(%s, %s) :: %s" % (lean(av[0]), lean(av[1]), par(rv.text)), "memo")), UNIT)
            raise Untranslatable("method .%s on a local table" % name)
        if isinstance(rv, L) and name == "assignment_iter" and not av and rv.ty == "assignlist":
            return k(ctx, rv)
        if isinstance(rv, L) and rv.ty in ("list", "assignlist", "natlist", "optlist", "anylist"):
            return self.list_method(rv, name, av, ctx, k)
        if isinstance(rv, (L,)):
            t = rv.text
            if name in ("is_some", "is_none") and not av:
                return k(ctx, L(ap("Option.isSome" if name == "is_some" else "Option.isNone", t), "bool"))
            if name == "unwrap_or" and len(av) == 1:
                return k(ctx, L(ap("Option.getD", t, lean(av[0])), ty_of(av[0])))
            if name == "max" and len(av) == 1 and (rv.ty == "optnat" or ty_of(av[0]) == "optnat"):
                return k(ctx, L(ap("Gen.BddCore.optMax", t, lean(av[0])), "optnat"))
            if name in ("max", "min") and len(av) == 1 and rv.ty == "nat":
                return k(ctx, L(ap(name, t, lean(av[0])), "nat"))
            if name in ("and_then", "map_or") and av and isinstance(av[-1], Clos):
                fn, bt = self.closure_lambda(av[-1], ctx, ["any"])
                if name == "and_then" and len(av) == 1:
                    return k(ctx, L(ap("Option.bind", t, fn), "opt"))
                if name == "map_or" and len(av) == 2:
                    return k(ctx, L(ap("Option.getD", ap("Option.map", fn, t), lean(av[0])), bt))
            if not av:
                if name == "neg":
                    return k(ctx, L(ap("Bdd.Ptr.neg", t), "ptr"))
                if name == "is_neg":
                    return k(ctx, L(ap("Bdd.Ptr.isNeg", t), "bool"))
                if name == "is_true":
                    return k(ctx, L(ap("Bdd.Ptr.isTrue", t), "bool"))
                if name == "is_false":
                    return k(ctx, L(ap("Bdd.Ptr.isFalse", t), "bool"))
                if name == "var_safe" or (name == "var" and rv.ty in ("ptr", "any")):
                    return k(ctx, L(ap("Bdd.Ptr.top?", t), "optnat"))
                if name == "unwrap":
                    return self.opt_bind(rv, ctx, k, hint, on_none=self.fail("unwrap"))
                if name == "is_compl_choice":
                    return k(ctx, L("(match %s with | Bdd.Ite.complChoice _ _ _ => true | _ => false)" % t, "bool"))
                if name in ("low_raw", "high_raw", "low", "high"):
                    raise Untranslatable(".%s() on a pointer that is not known to be a node" % name)
            if name == "map" and len(av) == 1 and isinstance(av[0], Clos) and len(av[0].params) == 1 and av[0].params[0][0] == "pbind":
                fn, bt = self.closure_lambda(av[0], ctx, ["any"])
                return k(ctx, L(ap("Option.map", fn, t), "optnat" if bt == "nat" else "opt"))
            if name == "or_else" and len(av) == 1 and isinstance(av[0], Clos) and not av[0].params:
                clo = av[0]
                body = self.pure(clo.body, Ctx(dict(clo.env), ctx.state))
                x = self.fresh("v")
                return k(ctx, L("(match %s with\n| some %s => some %s\n| none => %s)" % (t, x, x, lean(body)), "opt"))
            raise Untranslatable("method .%s(%d args) on a term" % (name, len(av)))
        raise Untranslatable("method .%s on %s" % (name, type(rv).__name__))

    def list_method(self, rv, name, av, ctx, k):
        t, ty = rv.text, rv.ty
        elem = {"list": "ptr", "assignlist": "lit", "natlist": "nat", "optlist": "opt", "anylist": "any"}[ty]
        back = {"ptr": "list", "lit": "assignlist", "nat": "natlist", "opt": "optlist", "optnat": "optlist"}
        if not av:
            if name in ("iter", "into_iter", "collect", "cloned", "copied", "to_vec", "clone"):
                return k(ctx, rv)
            if name == "flatten" and ty == "optlist":
                return k(ctx, L(ap("List.filterMap", "id", t), "anylist"))
            if name == "rev":
                return k(ctx, L(ap("List.reverse", t), ty))
            if name in ("count", "len"):
                return k(ctx, L(ap("List.length", t), "nat"))
            if name == "sum":
                return k(ctx, L(ap("List.sum", t), "nat"))
            if name == "is_empty":
                return k(ctx, L(ap("List.isEmpty", t), "bool"))
        if not av and name in ("max", "min") and elem == "nat":
            return k(ctx, L(ap("Gen.BddCore.listMax" if name == "max" else "Gen.BddCore.listMin", t), "optnat"))
        if not av and name == "last":
            return k(ctx, L(ap("List.getLast?", t), "optnat" if elem == "nat" else "opt"))
        if not av and name in ("next", "first"):
            return k(ctx, L(ap("List.head?", t), "optnat" if elem == "nat" else "opt"))
        if len(av) == 1 and name == "chain" and ty_of(av[0]) == ty:
            return k(ctx, L("%s ++ %s" % (par(t), par(lean(av[0]))), ty))
        if len(av) == 2 and name == "fold" and isinstance(av[1], Clos):
            fn, bt = self.closure_lambda(av[1], ctx, [ty_of(av[0]), elem])
            return k(ctx, L(ap("List.foldl", fn, lean(av[0]), t), ty_of(av[0])))
        if len(av) == 1 and isinstance(av[0], Clos):
            fn, bt = self.closure_lambda(av[0], ctx, [elem])
            if name == "filter_map":
                return k(ctx, L(ap("List.filterMap", fn, t), "natlist" if bt == "optnat" else "anylist"))
            if name == "map":
                return k(ctx, L(ap("List.map", fn, t), back.get(bt, "anylist")))
            if name == "filter":
                return k(ctx, L(ap("List.filter", fn, t), ty))
            if name in ("any", "all"):
                return k(ctx, L(ap("List." + name, t, fn), "bool"))
            if name in ("min_by_key", "max_by_key"):
                return k(ctx, L(ap("Gen.BddCore." + ("minByKey" if name[1] == "i" else "maxByKey"), fn, t), "opt"))
            if name == "position":
                return k(ctx, L(ap("Gen.BddCore.position", fn, t), "optnat"))
            if name == "find":
                return k(ctx, L(ap("List.find?", fn, t), "opt"))
        if len(av) == 1 and name in ("take", "skip"):
            return k(ctx, L(ap("List.take" if name == "take" else "List.drop", lean(av[0]), t), ty))
        raise Untranslatable("iterator method .%s" % name)

    def local_var_of(self, ast_, ctx):
        """the Rust variable behind `x`, `&x`, `&mut x` (None for a temporary)"""
        while ast_[0] in ("ref", "cast"):
            ast_ = ast_[1]
        if ast_[0] == "path" and len(ast_[1]) == 1 and ast_[1][0] in ctx.env:
            return ast_[1][0]
        return None

    def check_hash(self, hv, key):
        if not (isinstance(hv, Marker) and hv.name == "hash" and hv.extra == origin_of(key)):
            raise Untranslatable("the hash argument is not the hash of the key that is passed")

    def marker_method(self, rv, name, av, ctx, k, hint):
        m = rv.name
        G = "Gen.BddCore."
        if name in ("borrow", "borrow_mut", "as_ptr") and not av:
            return k(ctx, rv)
        if m == "order" or (m == "self" and self.self_kind == "order"):
            if name == "lt" and len(av) == 2:
                return k(ctx, L("%s < %s" % (ap("lvl", lean(av[0])), ap("lvl", lean(av[1]))), "prop"))
            if name == "get" and len(av) == 1:
                return k(ctx, L(ap("lvl", lean(av[0])), "nat"))
            if name == "var_at_level" and len(av) == 1:
                self.uses_varAt = True
                return k(ctx, L(ap("varAt", lean(av[0])), "nat"))
            if name == "num_vars" and not av:
                if "order.num_vars()" not in self.new_state:
                    self.new_state.append("order.num_vars()")
                return k(ctx, L("numVars", "nat"))
            if name in ("in_order_iter", "reverse_in_order_iter") and not av:
                if "order.num_vars()" not in self.new_state:
                    self.new_state.append("order.num_vars()")
                self.uses_varAt = True
                t_ = "(List.range numVars).map varAt"
                return k(ctx, L(t_ if name == "in_order_iter" else "List.reverse (%s)" % t_, "natlist"))
            if name == "between_iter" and len(av) == 2:
                lo_, hi_ = lean(av[0]), lean(av[1])
                return k(ctx, L("List.reverse ((List.range (%s - %s)).map (fun i => varAt (%s + i)))" % (par(hi_), par(lo_), par(lo_)), "natlist"))
            if name == "first" and len(av) == 2:
                return k(ctx, L(ap(G + "first", "lvl", lean(av[0]), lean(av[1])), "ptr"))
            if name == "first_essential" and len(av) == 3:
                return self.opt_bind(L(ap(G + "firstEssential", "lvl", *[lean(x) for x in av]), "opt"), ctx, k, hint,
                                     on_none=self.fail("first_essential"))
            raise Untranslatable("VarOrder::%s" % name)
        if m == "apply_table":
            if name == "hash" and len(av) == 1:
                return k(ctx, Marker("hash", origin_of(av[0])))
            if name == "get" and len(av) == 2:
                self.check_hash(av[1], av[0])
                return k(ctx, L(ap("Bdd.cacheGet", "C", ctx.state, lean(av[0])), "opt"))
            if name == "insert" and len(av) == 3:
                self.check_hash(av[2], av[0])
                return k(ctx.with_state(ap("Bdd.cacheInsert", "C", ctx.state, lean(av[0]), lean(av[1]))), UNIT)
            raise Untranslatable("apply_table.%s" % name)
        if m == "table" and self.self_kind == "adapter":
            hp = lambda v: isinstance(v, Marker) and v.name == "hashparam"
            if name == "get" and (len(av) == 1 or (len(av) == 2 and hp(av[1]))):
                return k(ctx, L(ap("C.get", ctx.state, lean(av[0])), "opt"))
            if name == "insert" and (len(av) == 2 or (len(av) == 3 and hp(av[2]))):
                return k(ctx.with_state(ap("C.insert", ctx.state, lean(av[0]), lean(av[1]))), UNIT)
            raise Untranslatable("table.%s" % name)
        if m == "memo":
            if name == "get" and len(av) == 1:
                return k(ctx, L(ap("Bdd.Memo.get", ctx.state, lean(av[0])), "opt"))
            if name == "insert" and len(av) == 2:
                return k(ctx.with_state("(%s, %s) :: %s" % (lean(av[0]), lean(av[1]), par(ctx.state))), UNIT)
            raise Untranslatable("memo.%s" % name)
        if m == "compute_table":
            if name == "get_or_insert" and len(av) == 1 and isinstance(av[0], Node):
                return k(ctx, av[0])
            raise Untranslatable("compute_table.%s" % name)
        if m == "stats":
            return k(ctx, rv)
        known_fields = ("self", "order", "apply_table", "table", "memo", "compute_table", "stats", "var_to_pos", "pos_to_var", "hash", "hashparam")
        if m not in known_fields and self.self_kind == "builder":
            # a field of the builder the model has no slot for: the body is still read to the end
            if m not in self.new_state:
                self.new_state.append(m)
            if name in ("get", "get_mut", "remove") and len(av) == 1:
                return k(ctx, L("(newState_%s.get %s)" % (m, par(lean(av[0]))), "opt"))
            if name in ("contains_key", "contains") and len(av) == 1:
                return k(ctx, L("(newState_%s.contains %s)" % (m, par(lean(av[0]))), "bool"))
            if name in ("insert",) and len(av) in (1, 2):
                return k(ctx, UNIT)
            if name in ("push", "clear") and len(av) <= 1:
                return k(ctx, UNIT)
            if name in ("len",) and not av:
                return k(ctx, L("newState_%s.len" % m, "nat"))
            if name in ("is_empty",) and not av:
                return k(ctx, L("newState_%s.isEmpty" % m, "bool"))
            if name in ("get", "set", "replace", "take") and len(av) <= 1:     # Cell-like field
                return k(ctx, L("newState_%s.value" % m, "any") if name != "set" else UNIT)
            raise Untranslatable("method .%s on the builder field %s" % (name, m))
        if m == "self" and self.self_kind == "builder":
            a = [x for x in av]
            if name == "get_or_insert" and len(a) == 1 and isinstance(a[0], Node):
                return k(ctx, L(ap(G + "mkNode", a[0].v, a[0].lo, a[0].hi), "ptr"))
            if name == "condition_essential" and len(a) == 3:
                return k(ctx, L(ap(G + "condEssential", *[lean(x) for x in a]), "ptr"))
            if name == "less_than" and len(a) == 2:
                return k(ctx, L("%s < %s" % (ap("lvl", lean(a[0])), ap("lvl", lean(a[1]))), "prop"))
            if name == "negate" and len(a) == 1:
                return k(ctx, L(ap(G + "bNegate", lean(a[0])), "ptr"))
            if name == "var" and len(a) == 2:
                return k(ctx, L(ap(G + "mkVar", lean(a[0]), lean(a[1])), "ptr"))
            if name in ("condition", "cond_helper") and len(a) == 3:
                fn = "condition" if name == "condition" else "condHelper"
                return k(ctx, L(ap(G + fn, "lvl", *[lean(x) for x in a]), "ptr"))
            if name == "cond_with_alloc" and len(a) == 4:
                if isinstance(a[3], L) and a[3].ty == "memo":
                    nm = self.local_var_of(self.cur_call[3][3], ctx)
                    callee = ap(G + "condWithAlloc", "lvl", lean(a[1]), lean(a[2]), lean(a[0]), a[3].text)
                    if nm is None:      # a temporary table: only the result is kept
                        return k(ctx, L(par(callee) + ".2", "ptr"))
                    m1, r1 = self.fresh("m"), self.fresh(hint or "r")
                    return "(match %s with\n| (%s, %s) => %s)" % (callee, m1, r1, k(ctx.bind(nm, L(m1, "memo")), L(r1, "ptr")))
                if isinstance(a[3], Marker) and a[3].name == "memo" and self.mode == "pairstate":
                    return self.effect_call(ap(G + "condWithAlloc", "lvl", lean(a[1]), lean(a[2]), lean(a[0]), ctx.state), ctx, k, hint)
                raise Untranslatable("the memo argument of cond_with_alloc")
            if name == "smooth_helper" and len(a) == 3:
                return k(ctx, L(ap(G + "smoothHelper", "lvl", "varAt", *[lean(x) for x in a]), "ptr"))
            if name in self.rec:
                return self.rec[name](self, a, ctx, k, hint)
            ops = {"ite": ("ite", 3), "ite_helper": ("ite", 3), "and": ("bAnd", 2), "or": ("bOr", 2), "iff": ("bIff", 2), "xor": ("bXor", 2),
                   "exists": ("bExists", 2), "compose": ("bCompose", 3)}
            if name in ops and len(a) == ops[name][1] and self.mode == "optstate":
                return self.effect_call(ap(G + ops[name][0], "C", "lvl", "fuel", ctx.state, *[lean(x) for x in a]), ctx, k, hint)
            raise Untranslatable("builder method self.%s/%d" % (name, len(a)))
        raise Untranslatable("method .%s on %s" % (name, m))

    # ---- if
    def tr_if(self, e, ctx, k, hint):
        _, cond, then, els = e
        if cond[0] == "letcond":
            arms = [(cond[1], None, then), (("pwild",), None, els if els is not None else ("tuple", []))]
            return self.tr_match(cond[2], arms, ctx, k, hint)
        cv = self.pure(cond, ctx)
        ct = lean(cv)
        if ct == "true":
            return self.tr_block(then, ctx, k, hint)
        if ct == "false":
            return self.tr_else(els, ctx, k, hint)
        a = self.try_pure(lambda kk: self.tr_block(then, ctx, kk, hint), ctx)
        if a is not None:
            b = self.try_pure(lambda kk: self.tr_else(els, ctx, kk, hint), ctx)
            if b is not None:
                try:
                    merged = mk_if(cv, a, b)
                except (_NoMerge, Untranslatable):
                    merged = None
                if merged is not None:
                    return k(ctx, merged)
        return "if %s then %s\nelse %s" % (ct, self.tr_block(then, ctx, k, hint), self.tr_else(els, ctx, k, hint))

    def tr_else(self, els, ctx, k, hint):
        if els is None:
            return k(ctx, UNIT)
        if els[0] == "if":
            return self.tr_if(els, ctx, k, hint)
        return self.tr_block(els, ctx, k, hint)

    # ---- patterns
    def pat_alts(self, pat, scrut_name=None):
        """list of alternatives (lean pattern text, bindings {rust name: value}, refined value or None)"""
        tag = pat[0]
        if tag == "pwild":
            return [("_", {}, None)]
        if tag == "pbind":
            x = self.fresh(pat[1])
            return [(x, {pat[1]: L(x)}, L(x))]
        if tag == "plit":
            return [(pat[1], {}, L(pat[1]))]
        if tag == "ppath":
            last = pat[1][-1]
            table = {"PtrTrue": ("Bdd.Ptr.tru", "ptr"), "PtrFalse": ("Bdd.Ptr.fls", "ptr"), "None": ("none", "opt")}
            if last in table:
                return [(table[last][0], {}, L(*table[last]))]
            raise Untranslatable("pattern " + "::".join(pat[1]))
        if tag == "por":
            alts = pat[1]
            regs = [a for a in alts if a[0] == "pts" and a[1][-1] == "Reg"]
            cmps = [a for a in alts if a[0] == "pts" and a[1][-1] == "Compl"]
            out = []
            if len(regs) == 1 and len(cmps) == 1 and regs[0][2] == cmps[0][2] and len(regs[0][2]) == 1:
                sub = regs[0][2][0]
                c = self.fresh("c")
                out.append(self.node_alt(c, sub))
                alts = [a for a in alts if a is not regs[0] and a is not cmps[0]]
            for a in alts:
                out.extend(self.pat_alts(a))
            return out
        if tag == "pts":
            last, subs = pat[1][-1], pat[2]
            if last in ("Reg", "Compl") and len(subs) == 1:
                return [self.node_alt("false" if last == "Reg" else "true", subs[0])]
            if last == "Some" and len(subs) == 1:
                return [("some " + par(p), b, None if r is None else L("some " + par(lean(r)), "opt")) for p, b, r in self.pat_alts(subs[0])]
            if last == "IteConst" and len(subs) == 1:
                out = []
                for p, b, r in self.pat_alts(subs[0]):
                    if r is None:
                        x = self.fresh("p")
                        p, r = x, L(x)
                    out.append(("Bdd.Ite.const " + par(p), b, KI("const", [lean(r)])))
                return out
            raise Untranslatable("pattern " + "::".join(pat[1]) + "(..)")
        if tag == "pstruct":
            last = pat[1][-1]
            if last in ("IteChoice", "IteComplChoice"):
                kind = "choice" if last == "IteChoice" else "complChoice"
                given = dict(pat[2])
                if not pat[3] and set(given) != {"f", "g", "h"}:
                    raise Untranslatable("fields of " + last)
                if not set(given) <= {"f", "g", "h"}:
                    raise Untranslatable("fields of " + last)
                names, binds = [], {}
                for fld in ("f", "g", "h"):
                    sub = given.get(fld, ("pwild",))
                    if sub[0] == "pbind":
                        x = self.fresh(sub[1])
                        binds[sub[1]] = L(x, "ptr")
                    elif sub[0] == "pwild":
                        x = self.fresh(fld)
                    else:
                        raise Untranslatable("nested pattern in " + last)
                    names.append(x)
                return [("Bdd.Ite.%s %s" % (kind, " ".join(names)), binds, KI(kind, names))]
            raise Untranslatable("struct pattern " + "::".join(pat[1]))
        raise Untranslatable("pattern form " + tag)

    def node_alt(self, c, sub):
        if sub[0] == "pbind":
            base = sub[1]
        elif sub[0] == "pwild":
            base = "n"
        else:
            raise Untranslatable("nested pattern under Reg/Compl")
        v, lo, hi = self.fresh(base + "_var"), self.fresh(base + "_low"), self.fresh(base + "_high")
        binds = {sub[1]: Node(v, lo, hi)} if sub[0] == "pbind" else {}
        return ("Bdd.Ptr.node %s %s %s %s" % (c, v, lo, hi), binds, KP(c, v, lo, hi))

    # ---- match
    def tr_match(self, scrut, arms, ctx, k, hint):
        scruts = scrut[1] if scrut[0] == "tuple" else [scrut]
        return self.tr_args(scruts, ctx, lambda c, vs: self.emit_match(scruts, vs, arms, c, k, hint))

    def emit_match(self, sasts, svals, arms, ctx, k, hint):
        n = len(svals)
        # a scrutinee that is a plain Rust variable is refined inside the arms
        svar = []
        for a in sasts:
            b = a
            while b[0] in ("ref", "cast"):
                b = b[1]
            svar.append(b[1][0] if b[0] == "path" and len(b[1]) == 1 and b[1][0] in ctx.env else None)
        known = n == 1 and (isinstance(svals[0], (OptSome, ResV)) or (isinstance(svals[0], L) and svals[0].text == "none"))
        stexts = None if known else [lean(v) for v in svals]

        def arm_alts(pat):
            if n == 1:
                return [([p], b, [r]) for p, b, r in self.pat_alts(pat)]
            if pat[0] == "pwild":
                return [(["_"] * n, {}, [None] * n)]
            if pat[0] == "por":
                out = []
                for a in pat[1]:
                    out.extend(arm_alts(a))
                return out
            if pat[0] != "ptuple" or len(pat[1]) != n:
                raise Untranslatable("pattern arity")
            combos = [([], {}, [])]
            for sub in pat[1]:
                nxt = []
                for ps, bs, rs in combos:
                    for p, b, r in self.pat_alts(sub):
                        nb = dict(bs)
                        nb.update(b)
                        nxt.append((ps + [p], nb, rs + [r]))
                combos = nxt
            return combos

        def arm_ctx(binds, refs, pats):
            c = ctx
            for i, (nm, r) in enumerate(zip(svar, refs)):
                if nm is not None and r is not None:
                    r.origin = origin_of(ctx.env[nm])
                    c = c.bind(nm, r)
            for kx, v in binds.items():
                c = c.bind(kx, v)
            return c

        def leave(c_start, binds, refs):
            """continuation after an arm: outer scope, the scrutinee variables stay refined, assignments kept"""
            def k_arm(c2, v2):
                env = dict(ctx.env)
                for nm, r in zip(svar, refs):
                    if nm is not None and r is not None and nm not in binds:
                        env[nm] = r
                for nm in ctx.env:
                    if nm in c2.env and nm not in binds and c2.env[nm] is not c_start.env.get(nm):
                        env[nm] = c2.env[nm]
                return k(Ctx(env, c2.state), v2)
            return k_arm

        def irrefutable(pats):
            return all(p == "_" or ATOM.match(p) and not p[0].isdigit() and p not in ("none", "true", "false") for p in pats)

        def go(arms_left):
            if not arms_left:
                raise Untranslatable("a guarded match without a final unguarded arm")
            has_guard = any(g is not None for _, g, _ in arms_left)
            lines = []
            if not has_guard:
                pure_vals, all_pure = [], True
                alts_all = []
                for pat, _, body in arms_left:
                    for pats, binds, refs in arm_alts(pat):
                        # a catch-all arm on a single variable scrutinee re-binds the variable
                        if n == 1 and pats == ["_"] and svar[0] is not None and not ATOM.match(stexts[0]):
                            x = self.fresh(svar[0])
                            pats, refs = [x], [L(x, ty_of(svals[0]))]
                        alts_all.append((pats, binds, refs, body))
                # pure attempt
                vals = []
                for pats, binds, refs, body in alts_all:
                    c = arm_ctx(binds, refs, pats)
                    v = self.try_pure(lambda kk: self.tr_expr(body, c, lambda c2, v2: kk(Ctx(ctx.env, c2.state), v2), hint), Ctx(ctx.env, c.state))
                    if v is None:
                        vals = None
                        break
                    vals.append(v)
                if vals is not None:
                    try:
                        return ("value", self.merge_match(stexts, [a[0] for a in alts_all], vals))
                    except _NoMerge:
                        pass
                for pats, binds, refs, body in alts_all:
                    c = arm_ctx(binds, refs, pats)
                    txt = self.tr_expr(body, c, leave(c, binds, refs), hint)
                    lines.append("| %s => %s" % (", ".join(pats), txt))
                return ("text", "(match %s with\n%s)" % (", ".join(stexts), "\n".join(lines)))
            pat, guard, body = arms_left[0]
            rest = go(arms_left[1:])
            rest_text = rest[1] if rest[0] == "text" else k(ctx, rest[1])
            covered = False
            for pats, binds, refs in arm_alts(pat):
                c = arm_ctx(binds, refs, pats)
                txt = self.tr_expr(body, c, leave(c, binds, refs), hint)
                if guard is not None:
                    g = lean(self.pure(guard, c))
                    txt = "if %s then %s\nelse %s" % (g, txt, rest_text)
                lines.append("| %s => %s" % (", ".join(pats), txt))
                covered = covered or irrefutable(pats)
            if not covered:
                lines.append("| %s => %s" % (", ".join(["_"] * n), rest_text))
            return ("text", "(match %s with\n%s)" % (", ".join(stexts), "\n".join(lines)))

        def ptr_pat(pat):
            if pat[0] in ("pwild", "pbind"):
                return True
            if pat[0] == "ppath":
                return pat[1][-1] in ("PtrTrue", "PtrFalse")
            if pat[0] == "pts":
                return pat[1][-1] in ("Reg", "Compl") and len(pat[2]) == 1 and pat[2][0][0] in ("pwild", "pbind")
            if pat[0] == "por":
                return all(ptr_pat(a) for a in pat[1])
            return False

        def static_match(pat, kind, refined):
            """does the pattern match a pointer of the given shape?  bindings or None"""
            if pat[0] == "pwild":
                return {}
            if pat[0] == "pbind":
                return {pat[1]: refined}
            if pat[0] == "ppath":
                return {} if {"PtrTrue": "tru", "PtrFalse": "fls"}[pat[1][-1]] == kind else None
            if pat[0] == "pts":
                if {"Reg": "reg", "Compl": "compl"}[pat[1][-1]] != kind:
                    return None
                sub = pat[2][0]
                return {sub[1]: Node(refined.v, refined.lo, refined.hi)} if sub[0] == "pbind" else {}
            if pat[0] == "por":
                for a in pat[1]:
                    m = static_match(a, kind, refined)
                    if m is not None:
                        return m
                return None
            return None

        def static_route():
            """a guarded match on one pointer: enumerate the four pointer shapes and resolve the arms statically"""
            base = svar[0] or "p"
            shapes = [("tru", "Bdd.Ptr.tru", L("Bdd.Ptr.tru", "ptr")), ("fls", "Bdd.Ptr.fls", L("Bdd.Ptr.fls", "ptr"))]
            for kind, c in (("reg", "false"), ("compl", "true")):
                v, lo, hi = self.fresh(base + "_var"), self.fresh(base + "_low"), self.fresh(base + "_high")
                shapes.append((kind, "Bdd.Ptr.node %s %s %s %s" % (c, v, lo, hi), KP(c, v, lo, hi)))
            lines = []
            for kind, lpat, refined in shapes:
                def resolve(i):
                    if i == len(arms):
                        raise Untranslatable("non-exhaustive guarded match")
                    pat, guard, body = arms[i]
                    binds = static_match(pat, kind, refined)
                    if binds is None:
                        return resolve(i + 1)
                    c = arm_ctx(binds, [refined], None)
                    if guard is None:
                        return self.tr_expr(body, c, leave(c, binds, [refined]), hint)
                    g = lean(self.pure(guard, c))
                    txt = self.tr_expr(body, c, leave(c, binds, [refined]), hint)
                    return "if %s then %s\nelse %s" % (g, txt, resolve(i + 1))
                lines.append("| %s => %s" % (lpat, resolve(0)))
            return "(match %s with\n%s)" % (stexts[0], "\n".join(lines))

        def known_match(pat, v):
            """pattern against a value with a known Option / Result constructor: context transformer or None"""
            if pat[0] == "pwild":
                return lambda c: c
            if pat[0] == "pbind":
                return lambda c: c.bind(pat[1], v)
            if pat[0] == "por":
                for a in pat[1]:
                    m = known_match(a, v)
                    if m is not None:
                        return m
                return None
            if pat[0] == "ppath" and pat[1][-1] == "None":
                return (lambda c: c) if isinstance(v, L) and v.text == "none" else None
            if pat[0] == "pts" and len(pat[2]) == 1 and pat[1][-1] in ("Some", "Ok", "Err"):
                want = pat[1][-1]
                ok = (want == "Some" and isinstance(v, OptSome)) or (isinstance(v, ResV) and v.kind == want.lower())
                if not ok:
                    return None
                sub = pat[2][0]
                return lambda c: self.bind_pat(sub, v.inner, c)
            raise Untranslatable("pattern against a known Option/Result value")

        if known:
            def resolve_known(i):
                if i == len(arms):
                    raise Untranslatable("non-exhaustive match on a known value")
                pat, guard, body = arms[i]
                m = known_match(pat, svals[0])
                if m is None:
                    return resolve_known(i + 1)
                c = m(ctx)

                def k_arm(c2, v2):
                    env = dict(ctx.env)
                    for nm in ctx.env:
                        if nm in c2.env and c2.env[nm] is not c.env.get(nm):
                            env[nm] = c2.env[nm]
                    return k(Ctx(env, c2.state), v2)
                if guard is None:
                    return self.tr_expr(body, c, k_arm, hint)
                g = lean(self.pure(guard, c))
                return "if %s then %s\nelse %s" % (g, self.tr_expr(body, c, k_arm, hint), resolve_known(i + 1))
            return resolve_known(0)

        if n == 1 and any(g is not None for _, g, _ in arms) and all(ptr_pat(p_) for p_, _, _ in arms):
            return static_route()
        r = go(list(arms))
        if r[0] == "value":
            return k(ctx, r[1])
        return r[1]

    def merge_match(self, stexts, pats_list, vals):
        if all(v is UNIT for v in vals):
            return UNIT
        for v in vals:
            if not isinstance(v, (L, KP, KI)):
                raise _NoMerge()
        tys = set(ty_of(v) for v in vals)
        lines = ["| %s => %s" % (", ".join(p), lean(v)) for p, v in zip(pats_list, vals)]
        return L("(match %s with\n%s)" % (", ".join(stexts), "\n".join(lines)), tys.pop() if len(tys) == 1 else "any")

    # ---- for loops (only the accumulate-over-a-slice shape of or_lst / and_lst)
    def tr_for(self, e, ctx, k):
        """`for x in xs { … }` with loop-carried variables (assigned locals and local tables) and `break` /
        `continue`: an auxiliary function, structurally recursive on the list, that threads them (and the state)"""
        _, pat, it, body = e
        if self.mode not in ("optstate", "pure") or self.loopname is None:
            raise Untranslatable("`for` loop in this kind of function")
        if pat[0] != "pbind":
            raise Untranslatable("`for` pattern")
        xs = self.pure(it, ctx)
        elems = {"list": ("Bdd.Ptr", "ptr"), "assignlist": ("(Nat × Bool)", "lit"), "natlist": ("Nat", "nat")}
        if ty_of(xs) not in elems:
            raise Untranslatable("`for` over an unsupported iterator")
        ety, evt = elems[ty_of(xs)]
        carried, mentioned = [], []

        def scan(a):
            if isinstance(a, tuple):
                if a and a[0] == "assign" and a[2][0] == "path" and len(a[2][1]) == 1:
                    if a[2][1][0] not in carried:
                        carried.append(a[2][1][0])
                if a and a[0] == "path" and len(a[1]) == 1 and a[1][0] not in mentioned:
                    mentioned.append(a[1][0])
                for x in a:
                    scan(x)
            elif isinstance(a, list):
                for x in a:
                    scan(x)
        scan(body)
        for nm in mentioned:    # a local table that the body uses is threaded too
            if nm in ctx.env and ty_of(ctx.env[nm]) == "memo" and nm not in carried and nm != pat[1]:
                carried.append(nm)
        if not carried or any(c not in ctx.env for c in carried):
            raise Untranslatable("`for` loop without loop-carried local variables")
        ltypes = {"ptr": "Bdd.Ptr", "memo": "Bdd.Memo", "nat": "Nat", "bool": "Bool"}
        ctys = [ty_of(ctx.env[c]) for c in carried]
        if any(t not in ltypes for t in ctys):
            raise Untranslatable("type of a loop-carried variable")
        stateful = self.mode == "optstate"
        sub = Tr("optstate" if stateful else "pure")
        sub.used, sub.file = set(self.used), self.file
        accs = [sub.fresh(c) for c in carried]
        x, rest = sub.fresh(pat[1]), sub.fresh("rest")
        self.loopcount = getattr(self, "loopcount", 0) + 1
        lname = self.loopname if self.loopcount == 1 else "%s%d" % (self.loopname, self.loopcount)
        name = "Gen.BddCore." + lname
        pre = ["C", "lvl", "fuel"] if stateful else ["lvl"]

        def vals(c):
            return [lean(c.env[cn]) for cn in carried]

        def again(c):
            return ap(name, *(pre + ([c.state] if stateful else []) + vals(c) + [rest]))

        def leave_loop(c):
            tup = ", ".join(vals(c))
            if stateful:
                return "some (%s, %s)" % (c.state, tup)
            return tup if len(carried) == 1 else "(%s)" % tup
        sub.loop_ctl.append({"break": leave_loop, "continue": again})
        sub.ret_stack.append(lambda c, v: (_ for _ in ()).throw(Untranslatable("`return` inside a loop body")))
        env = {cn: L(an, ct) for cn, an, ct in zip(carried, accs, ctys)}
        env[pat[1]] = L(x, evt)
        txt = sub.tr_block(body, Ctx(env, "s" if stateful else None), lambda c, v: again(c))
        self.uses_varAt = self.uses_varAt or sub.uses_varAt
        binders = " ".join("(%s : %s)" % (an, ltypes[ct]) for an, ct in zip(accs, ctys))
        rty = " × ".join(ltypes[ct] for ct in ctys)
        if stateful:
            sig = "(C : Bdd.CacheImpl) (lvl : Nat → Nat) (fuel : Nat) (s : C.σ) %s : List %s → Option (C.σ × %s)" % (binders, ety, rty)
            base = "some (s, %s)" % ", ".join(accs)
        else:
            sig = "(lvl : Nat → Nat) %s : List %s → %s" % (binders, ety, rty)
            base = accs[0] if len(accs) == 1 else "(%s)" % ", ".join(accs)
        self.aux.append("def %s %s\n  | [] => %s\n  | %s :: %s =>\n%s\n" % (lname, sig, base, x, rest, indent(txt, 4)))
        start = [lean(ctx.env[cn]) for cn in carried]
        if len(carried) == 1:
            acc = carried[0]
            if stateful:
                return self.effect_call(ap(name, "C", "lvl", "fuel", ctx.state, start[0], lean(xs)), ctx,
                                        lambda c, v: k(c.bind(acc, v), UNIT), acc)
            return k(ctx.bind(acc, L(ap(name, "lvl", start[0], lean(xs)), ctys[0])), UNIT)
        outs = [self.fresh(cn) for cn in carried]
        c2 = ctx
        for cn, on, ct in zip(carried, outs, ctys):
            c2 = c2.bind(cn, L(on, ct))
        if stateful:
            s1 = self.fresh("s")
            call = ap(name, "C", "lvl", "fuel", ctx.state, *(start + [lean(xs)]))
            return "(match %s with\n| none => none\n| some (%s, %s) => %s)" % (call, s1, ", ".join(outs), k(c2.with_state(s1), UNIT))
        call = ap(name, "lvl", *(start + [lean(xs)]))
        return "(match %s with\n| (%s) => %s)" % (call, ", ".join(outs), k(c2, UNIT))


class _Impure(Exception):
    pass


class _NoMerge(Exception):
    pass


# =============================================================== drivers
_TOKS = {}


def file_toks(rel):
    if rel not in _TOKS:
        _TOKS[rel] = tokenize(open(os.path.join(REPO, rel)).read())
    return _TOKS[rel]


def pick_fn(rel, name, header=None, nth=None):
    fs = find_fns(file_toks(rel), name)
    if header is not None:
        fs = [f for f in fs if re.search(header, f["header"])]
    if nth is not None:
        fs = fs[nth:nth + 1]
    if len(fs) != 1:
        raise Untranslatable("expected exactly one `fn %s` in %s (%s), found %d" % (name, rel, header, len(fs)))
    _CUR[0] = rel
    f = fs[0]
    f["names"] = param_names(f["params"])
    f["ast"] = parse_body(f["body"])
    return f


def indent(text, n=2):
    return "\n".join(" " * n + ln for ln in text.split("\n"))


def expect_params(f, n):
    if len(f["names"]) != n:
        raise Untranslatable("expected %d parameters, found %d" % (n, len(f["names"])))
    return [x[0] for x in f["names"]]


ROBDD = "src/builder/bdd/robdd.rs"
BUILDER = "src/builder/bdd/builder.rs"
BMOD = "src/builder/mod.rs"
ORDER = "src/repr/var_order.rs"
ALLAPP = "src/builder/cache/all_app.rs"
LRUAPP = "src/builder/cache/lru_app.rs"
BDDRS = "src/repr/bdd.rs"


def d_mkNode():
    f = pick_fn(ROBDD, "get_or_insert", header=r"BddBuilder")
    (bdd,) = expect_params(f, 1)
    tr = Tr("pure")
    x, lo, hi = tr.fresh("x"), tr.fresh("lo"), tr.fresh("hi")
    body = tr.tr_block(f["ast"], Ctx({bdd: Node(x, lo, hi)}, None), tr.ret)
    return "def mkNode (%s : Nat) (%s %s : Bdd.Ptr) : Bdd.Ptr :=\n%s" % (x, lo, hi, indent(body))


def d_condEssential():
    f = pick_fn(ROBDD, "condition_essential")
    pf, pl, pv = expect_params(f, 3)
    tr = Tr("pure")
    a, b, c = tr.fresh(pf), tr.fresh(pl), tr.fresh(pv)
    body = tr.tr_block(f["ast"], Ctx({pf: L(a, "ptr"), pl: L(b, "nat"), pv: L(c, "bool")}, None), tr.ret)
    return "def condEssential (%s : Bdd.Ptr) (%s : Nat) (%s : Bool) : Bdd.Ptr :=\n%s" % (a, b, c, indent(body))


def order_closure():
    """the `let o = |a, b| …;` of ite_helper"""
    f = pick_fn(ROBDD, "ite_helper")
    for st in f["ast"][1]:
        if st[0] == "let" and st[1][0] == "pbind" and st[2] is not None and st[2][0] == "closure":
            return st[2]
    raise Untranslatable("no closure bound by a let in ite_helper")


def d_ordP():
    clo = order_closure()
    if len(clo[1]) != 2 or any(p[0] != "pbind" for p in clo[1]):
        raise Untranslatable("parameters of the order closure")
    tr = Tr("pure")
    a, b = tr.fresh(clo[1][0][1]), tr.fresh(clo[1][1][1])
    env = {clo[1][0][1]: L(a, "ptr"), clo[1][1][1]: L(b, "ptr")}
    body = tr.tr_expr(clo[2], Ctx(env, None), tr.ret)
    return "def ordP (lvl : Nat → Nat) (%s %s : Bdd.Ptr) : Bool :=\n%s" % (a, b, indent(body))


def d_orderLt():
    f = pick_fn(ORDER, "lt", header=r"impl VarOrder")
    pa, pb = expect_params(f, 2)
    tr = Tr("pure", self_kind="order")
    a, b = tr.fresh(pa), tr.fresh(pb)
    body = tr.tr_block(f["ast"], Ctx({pa: L(a, "nat"), pb: L(b, "nat")}, None), tr.ret)
    return "def orderLt (lvl varAt : Nat → Nat) (%s %s : Nat) : Bool :=\n%s" % (a, b, indent(body))


def d_orderGet():
    f = pick_fn(ORDER, "get", header=r"impl VarOrder")
    (pa,) = expect_params(f, 1)
    tr = Tr("pure", self_kind="order")
    a = tr.fresh(pa)
    body = tr.tr_block(f["ast"], Ctx({pa: L(a, "nat")}, None), tr.ret)
    return "def orderGet (lvl varAt : Nat → Nat) (%s : Nat) : Nat :=\n%s" % (a, indent(body))


def d_first():
    f = pick_fn(ORDER, "first", header=r"impl VarOrder")
    pa, pb = expect_params(f, 2)
    tr = Tr("pure", self_kind="order")
    a, b = tr.fresh(pa), tr.fresh(pb)
    body = tr.tr_block(f["ast"], Ctx({pa: L(a, "ptr"), pb: L(b, "ptr")}, None), tr.ret)
    # a source that reads the inverse map gets the extra parameter: its type then differs from the model's
    lv = "(lvl varAt : Nat → Nat)" if tr.uses_varAt else "(lvl : Nat → Nat)"
    return "def first %s (%s %s : Bdd.Ptr) : Bdd.Ptr :=\n%s" % (lv, a, b, indent(body))


def d_firstEssential():
    f = pick_fn(ORDER, "first_essential", header=r"impl VarOrder")
    pa, pb, pc = expect_params(f, 3)
    tr = Tr("opt", self_kind="order")
    a, b, c = tr.fresh(pa), tr.fresh(pb), tr.fresh(pc)
    body = tr.tr_block(f["ast"], Ctx({pa: L(a, "ptr"), pb: L(b, "ptr"), pc: L(c, "ptr")}, None), tr.ret)
    lv = "(lvl varAt : Nat → Nat)" if tr.uses_varAt else "(lvl : Nat → Nat)"
    return "def firstEssential %s (%s %s %s : Bdd.Ptr) : Option Nat :=\n%s" % (lv, a, b, c, indent(body))


def check_ite_forwards():
    """`BottomUpBuilder::ite` of builder.rs must be `self.ite_helper(f, g, h)`"""
    f = pick_fn(BUILDER, "ite", header=r"BottomUpBuilder")
    ps = expect_params(f, 3)
    want = ("block", [], ("mcall", ("path", ["self"]), "ite_helper", [("path", [p]) for p in ps]))
    if f["ast"] != want:
        raise Untranslatable("`ite` of builder.rs is not a plain forward to ite_helper")


def d_ite():
    check_ite_forwards()
    f = pick_fn(ROBDD, "ite_helper")
    pf, pg, ph = expect_params(f, 3)
    tr = Tr("optstate")
    tr.closure_alias.append((order_closure(), L("Gen.BddCore.ordP lvl", "order")))
    a, b, c = tr.fresh(pf), tr.fresh(pg), tr.fresh(ph)
    env = {pf: L(a, "ptr"), pg: L(b, "ptr"), ph: L(c, "ptr")}
    body = tr.tr_block(f["ast"], Ctx(env, "s"), tr.ret)
    return ("def ite (C : Bdd.CacheImpl) (lvl : Nat → Nat) : Nat → C.σ → Bdd.Ptr → Bdd.Ptr → Bdd.Ptr → Option (C.σ × Bdd.Ptr)\n"
            "  | 0, _, _, _, _ => none\n  | fuel + 1, s, %s, %s, %s =>\n%s" % (a, b, c, indent(body, 4)))


def d_cache(rel, which, leanname):
    f = pick_fn(rel, which, header=r"IteTable")
    names = [x[0] for x in f["names"]]
    if which == "get":
        if len(names) != 2:
            raise Untranslatable("parameters of get")
        tr = Tr("pure", self_kind="adapter", ret_option=True)
        i = tr.fresh(names[0])
        env = {names[0]: L(i, "ite"), names[1]: Marker("hashparam")}
        body = tr.tr_block(f["ast"], Ctx(env, "s"), tr.ret)
        return "def %s (C : Bdd.CacheImpl) (s : C.σ) (%s : Bdd.Ite) : Option Bdd.Ptr :=\n%s" % (leanname, i, indent(body))
    if len(names) != 3:
        raise Untranslatable("parameters of insert")
    tr = Tr("stateonly", self_kind="adapter")
    i, r = tr.fresh(names[0]), tr.fresh(names[1])
    env = {names[0]: L(i, "ite"), names[1]: L(r, "ptr"), names[2]: Marker("hashparam")}
    body = tr.tr_block(f["ast"], Ctx(env, "s"), tr.ret)
    return "def %s (C : Bdd.CacheImpl) (s : C.σ) (%s : Bdd.Ite) (%s : Bdd.Ptr) : C.σ :=\n%s" % (leanname, i, r, indent(body))


def d_condWithAlloc():
    f = pick_fn(ROBDD, "cond_with_alloc")
    pb, pl, pv, pc = expect_params(f, 4)
    tr = Tr("pairstate")
    b, l, v, m = tr.fresh(pb), tr.fresh(pl), tr.fresh(pv), tr.fresh(pc)
    env = {pb: L(b, "ptr"), pl: L(l, "nat"), pv: L(v, "bool"), pc: Marker("memo")}
    body = tr.tr_block(f["ast"], Ctx(env, m), tr.ret)
    return ("def condWithAlloc (lvl : Nat → Nat) (%s : Nat) (%s : Bool) (%s : Bdd.Ptr) (%s : Bdd.Memo) : Bdd.Memo × Bdd.Ptr :=\n%s"
            % (l, v, b, m, indent(body)))


def d_cond3(rel, rust, leanname, header):
    f = pick_fn(rel, rust, header=header)
    pb, pl, pv = expect_params(f, 3)
    tr = Tr("pure")
    b, l, v = tr.fresh(pb), tr.fresh(pl), tr.fresh(pv)
    env = {pb: L(b, "ptr"), pl: L(l, "nat"), pv: L(v, "bool")}
    body = tr.tr_block(f["ast"], Ctx(env, None), tr.ret)
    return "def %s (lvl : Nat → Nat) (%s : Bdd.Ptr) (%s : Nat) (%s : Bool) : Bdd.Ptr :=\n%s" % (leanname, b, l, v, indent(body))


def d_pure_op(rel, rust, leanname, header, tys):
    f = pick_fn(rel, rust, header=header)
    ps = expect_params(f, len(tys))
    tr = Tr("pure")
    ns = [tr.fresh(p) for p in ps]
    tymap = {"ptr": "Bdd.Ptr", "nat": "Nat", "bool": "Bool"}
    env = {p: L(n, t) for p, n, t in zip(ps, ns, tys)}
    body = tr.tr_block(f["ast"], Ctx(env, None), tr.ret)
    binders = " ".join("(%s : %s)" % (n, tymap[t]) for n, t in zip(ns, tys))
    return "def %s %s : Bdd.Ptr :=\n%s" % (leanname, binders, indent(body))


def d_state_op(rel, rust, leanname, header, tys):
    f = pick_fn(rel, rust, header=header)
    ps = expect_params(f, len(tys))
    tr = Tr("optstate")
    ns = [tr.fresh(p) for p in ps]
    tymap = {"ptr": "Bdd.Ptr", "nat": "Nat", "bool": "Bool"}
    env = {p: L(n, t) for p, n, t in zip(ps, ns, tys)}
    body = tr.tr_block(f["ast"], Ctx(env, "s"), tr.ret)
    binders = " ".join("(%s : %s)" % (n, tymap[t]) for n, t in zip(ns, tys))
    return ("def %s (C : Bdd.CacheImpl) (lvl : Nat → Nat) (fuel : Nat) (s : C.σ) %s : Option (C.σ × Bdd.Ptr) :=\n%s"
            % (leanname, binders, indent(body)))


_NOTE = [None]


def d_default_op(rust, leanname, tys):
    """a default method of `BottomUpBuilder` (src/builder/mod.rs): an override of the same name in the BDD impl block
    `impl BottomUpBuilder<BddPtr> for T where T: BddBuilder` (src/builder/bdd/builder.rs) takes precedence"""
    over = [f for f in find_fns(file_toks(BUILDER), rust) if re.search(r"BottomUpBuilder", f["header"])]
    if len(over) > 1:
        raise Untranslatable("several `fn %s` in the BottomUpBuilder impl of builder/bdd/builder.rs" % rust)
    if over:
        _NOTE[0] = "override in builder/bdd/builder.rs"
        return d_state_op(BUILDER, rust, leanname, r"BottomUpBuilder", tys)
    return d_state_op(BMOD, rust, leanname, r"BottomUpBuilder", tys)


def d_lst(rust, leanname):
    f = pick_fn(BUILDER, rust, header=r"trait BddBuilder")
    (pf,) = expect_params(f, 1)
    tr = Tr("optstate")
    tr.loopname = leanname + "_loop"
    a = tr.fresh(pf)
    body = tr.tr_block(f["ast"], Ctx({pf: L(a, "list")}, "s"), tr.ret)
    return ("".join(tr.aux) + "def %s (C : Bdd.CacheImpl) (lvl : Nat → Nat) (fuel : Nat) (s : C.σ) (%s : List Bdd.Ptr) : Option (C.σ × Bdd.Ptr) :=\n%s"
            % (leanname, a, indent(body)))


def d_orderVarAt():
    f = pick_fn(ORDER, "var_at_level", header=r"impl VarOrder")
    (pa,) = expect_params(f, 1)
    tr = Tr("pure", self_kind="order")
    a = tr.fresh(pa)
    body = tr.tr_block(f["ast"], Ctx({pa: L(a, "nat")}, None), tr.ret)
    return "def orderVarAt (lvl varAt : Nat → Nat) (%s : Nat) : Nat :=\n%s" % (a, indent(body))


def d_accessor(rust, leanname, header, mode, rettype):
    f = pick_fn(BDDRS, rust, header=header)
    expect_params(f, 0)
    tr = Tr(mode, self_kind="ptr")
    p_ = tr.fresh("p")
    body = tr.tr_block(f["ast"], Ctx({"self": L(p_, "ptr")}, None), tr.ret)
    return "def %s (%s : Bdd.Ptr) : %s :=\n%s" % (leanname, p_, rettype, indent(body))


def d_condModelH():
    f = pick_fn(ROBDD, "cond_model_h")
    pb, pm = expect_params(f, 2)
    tr = Tr("pure")
    tr.loopname = "condModelH_loop"
    b, m = tr.fresh(pb), tr.fresh(pm)
    body = tr.tr_block(f["ast"], Ctx({pb: L(b, "ptr"), pm: L(m, "assignlist")}, None), tr.ret)
    if not tr.aux:
        tr.aux.append("abbrev condModelH_loop := @Bdd.condModel\n")
    return ("".join(tr.aux) + "def condModelH (lvl : Nat → Nat) (%s : Bdd.Ptr) (%s : List (Nat × Bool)) : Bdd.Ptr :=\n%s" % (b, m, indent(body)))


def d_smoothHelper():
    f = pick_fn(ROBDD, "smooth_helper")
    pb, pc, pt = expect_params(f, 3)
    tr = Tr("pure")
    tr.loopname = "smoothHelper_loop"
    b, c, t = tr.fresh(pb), tr.fresh(pc), tr.fresh(pt)
    env = {pb: L(b, "ptr"), pc: L(c, "nat"), pt: L(t, "nat")}
    body = tr.tr_block(f["ast"], Ctx(env, None), tr.ret)
    # the recursion of the source: `total - current` decreases, except in the Compl arm, which re-enters with the
    # regular pointer at the same level; the measure is stated here, its proof obligations are checked by Lean
    return ("".join(tr.aux) + "def smoothHelper (lvl varAt : Nat → Nat) (%s : Bdd.Ptr) (%s %s : Nat) : Bdd.Ptr :=\n%s\n"
            "termination_by (%s - %s, if Bdd.Ptr.isNeg %s then 1 else 0)\n"
            "decreasing_by all_goals (simp_wf; simp [Bdd.Ptr.isNeg]; try omega)"
            % (b, c, t, indent(body), t, c, b))


def d_smooth():
    f = pick_fn(ROBDD, "smooth", header=r"impl")
    pb, pn = expect_params(f, 2)
    tr = Tr("pure")
    b, n_ = tr.fresh(pb), tr.fresh(pn)
    body = tr.tr_block(f["ast"], Ctx({pb: L(b, "ptr"), pn: L(n_, "nat")}, None), tr.ret)
    return "def smooth (lvl varAt : Nat → Nat) (%s : Bdd.Ptr) (%s : Nat) : Bdd.Ptr :=\n%s" % (b, n_, indent(body))


# (generated name, model definition it is an alias of when untranslated, driver)
FUNCTIONS = [
    ("mkNode", "Bdd.mkNode", "RobddBuilder::get_or_insert", d_mkNode),
    ("condEssential", "Bdd.condEssential", "RobddBuilder::condition_essential", d_condEssential),
    ("orderLt", "fun (lvl varAt : Nat → Nat) (a b : Nat) => decide (lvl a < lvl b)", "VarOrder::lt", d_orderLt),
    ("orderGet", "fun (lvl varAt : Nat → Nat) (a : Nat) => lvl a", "VarOrder::get", d_orderGet),
    ("first", "Bdd.first", "VarOrder::first", d_first),
    ("firstEssential", "Bdd.firstEssential", "VarOrder::first_essential", d_firstEssential),
    ("ordP", "Bdd.ordP", "closure `o` of ite_helper", d_ordP),
    ("cacheGetAll", "Bdd.cacheGet", "AllIteTable::get", lambda: d_cache(ALLAPP, "get", "cacheGetAll")),
    ("cacheInsertAll", "Bdd.cacheInsert", "AllIteTable::insert", lambda: d_cache(ALLAPP, "insert", "cacheInsertAll")),
    ("cacheGetLru", "Bdd.cacheGet", "LruIteTable::get", lambda: d_cache(LRUAPP, "get", "cacheGetLru")),
    ("cacheInsertLru", "Bdd.cacheInsert", "LruIteTable::insert", lambda: d_cache(LRUAPP, "insert", "cacheInsertLru")),
    ("ite", "Bdd.ite", "RobddBuilder::ite_helper", d_ite),
    ("condWithAlloc", "Bdd.condWithAlloc", "RobddBuilder::cond_with_alloc", d_condWithAlloc),
    ("condHelper", "Bdd.condition", "RobddBuilder::cond_helper", lambda: d_cond3(ROBDD, "cond_helper", "condHelper", r"BddBuilder")),
    ("condition", "Bdd.condition", "BottomUpBuilder::condition", lambda: d_cond3(BUILDER, "condition", "condition", r"BottomUpBuilder")),
    ("condModelH", "Bdd.condModel", "RobddBuilder::cond_model_h", d_condModelH),
    ("bNegate", "Bdd.Ptr.neg", "BottomUpBuilder::negate", lambda: d_pure_op(BUILDER, "negate", "bNegate", r"BottomUpBuilder", ["ptr"])),
    ("mkVar", "Bdd.mkVar", "BottomUpBuilder::var", lambda: d_pure_op(BUILDER, "var", "mkVar", r"BottomUpBuilder", ["nat", "bool"])),
    ("bAnd", "Bdd.bAnd", "BottomUpBuilder::and", lambda: d_state_op(BUILDER, "and", "bAnd", r"BottomUpBuilder", ["ptr", "ptr"])),
    ("bIff", "Bdd.bIff", "BottomUpBuilder::iff", lambda: d_state_op(BUILDER, "iff", "bIff", r"BottomUpBuilder", ["ptr", "ptr"])),
    ("bXor", "Bdd.bXor", "BottomUpBuilder::xor", lambda: d_state_op(BUILDER, "xor", "bXor", r"BottomUpBuilder", ["ptr", "ptr"])),
    ("bOr", "Bdd.bOr", "BottomUpBuilder::or (default)", lambda: d_default_op("or", "bOr", ["ptr", "ptr"])),
    ("bExists", "Bdd.bExists", "BottomUpBuilder::exists", lambda: d_state_op(BUILDER, "exists", "bExists", r"BottomUpBuilder", ["ptr", "nat"])),
    ("bCompose", "Bdd.bCompose", "BottomUpBuilder::compose (default)", lambda: d_default_op("compose", "bCompose", ["ptr", "nat", "ptr"])),
    ("bAndLst", "fun (C : Bdd.CacheImpl) (lvl : Nat → Nat) (fuel : Nat) (s : C.σ) (l : List Bdd.Ptr) => Bdd.bAndLst C lvl fuel s Bdd.Ptr.tru l",
     "BddBuilder::and_lst", lambda: d_lst("and_lst", "bAndLst")),
    ("bOrLst", "fun (C : Bdd.CacheImpl) (lvl : Nat → Nat) (fuel : Nat) (s : C.σ) (l : List Bdd.Ptr) => Bdd.bOrLst C lvl fuel s Bdd.Ptr.fls l",
     "BddBuilder::or_lst", lambda: d_lst("or_lst", "bOrLst")),
    ("orderVarAt", "fun (lvl varAt : Nat → Nat) (a : Nat) => varAt a", "VarOrder::var_at_level", d_orderVarAt),
    ("ptrNeg", "Bdd.Ptr.neg", "BddPtr::neg", lambda: d_accessor("neg", "ptrNeg", r"DDNNFPtr", "pure", "Bdd.Ptr")),
    ("ptrIsNeg", "Bdd.Ptr.isNeg", "BddPtr::is_neg", lambda: d_accessor("is_neg", "ptrIsNeg", r"DDNNFPtr", "pure", "Bool")),
    ("ptrIsTrue", "Bdd.Ptr.isTrue", "BddPtr::is_true", lambda: d_accessor("is_true", "ptrIsTrue", r"DDNNFPtr", "pure", "Bool")),
    ("ptrIsFalse", "Bdd.Ptr.isFalse", "BddPtr::is_false", lambda: d_accessor("is_false", "ptrIsFalse", r"DDNNFPtr", "pure", "Bool")),
    ("ptrVarSafe", "Bdd.Ptr.top?", "BddPtr::var_safe", lambda: d_accessor("var_safe", "ptrVarSafe", r"impl < 'a > BddPtr", "pure", "Option Nat")),
    ("ptrVar", "Bdd.Ptr.top?", "<BddPtr as PartialVariableOrder>::var", lambda: d_accessor("var", "ptrVar", r"PartialVariableOrder", "pure", "Option Nat")),
    ("ptrLowRaw", "fun (p : Bdd.Ptr) => match p with | Bdd.Ptr.node _ _ lo _ => some lo | _ => none", "BddPtr::low_raw",
     lambda: d_accessor("low_raw", "ptrLowRaw", r"impl < 'a > BddPtr", "opt", "Option Bdd.Ptr")),
    ("ptrHighRaw", "fun (p : Bdd.Ptr) => match p with | Bdd.Ptr.node _ _ _ hi => some hi | _ => none", "BddPtr::high_raw",
     lambda: d_accessor("high_raw", "ptrHighRaw", r"impl < 'a > BddPtr", "opt", "Option Bdd.Ptr")),
    ("ptrLow", "fun (p : Bdd.Ptr) => match p with | Bdd.Ptr.node c _ lo _ => some (if c then Bdd.Ptr.neg lo else lo) | _ => none", "BddPtr::low",
     lambda: d_accessor("low", "ptrLow", r"impl < 'a > BddPtr", "opt", "Option Bdd.Ptr")),
    ("ptrHigh", "fun (p : Bdd.Ptr) => match p with | Bdd.Ptr.node c _ _ hi => some (if c then Bdd.Ptr.neg hi else hi) | _ => none", "BddPtr::high",
     lambda: d_accessor("high", "ptrHigh", r"impl < 'a > BddPtr", "opt", "Option Bdd.Ptr")),
    ("smoothHelper", "fun (lvl varAt : Nat → Nat) (p : Bdd.Ptr) (cur total : Nat) => Bdd.smoothH lvl varAt (total - cur) cur p",
     "RobddBuilder::smooth_helper", d_smoothHelper),
    ("smooth", "Bdd.smooth", "RobddBuilder::smooth", d_smooth),
]


def write_if_changed(path, text):
    old = open(path).read() if os.path.exists(path) else None
    if old != text:
        open(path, "w").write(text)


HEAD = """import RsddModel.Model.BddBuilder
import RsddModel.Model.BddWmc
/-!
# Generated by tools/gen_bddcore.py from the Rust source — do not edit

The core ROBDD builder functions (src/builder/bdd/robdd.rs, src/builder/bdd/builder.rs,
src/builder/mod.rs, src/repr/var_order.rs, src/builder/cache/{all_app,lru_app}.rs, src/repr/bdd.rs),
translated statement by statement.  Compared with the hand-written model in `Props/TieBddCore.lean`.
-/
set_option linter.unusedVariables false
namespace Gen.BddCore

"""


EXTRA_ALIAS = {
    "bAndLst": [("bAndLst_loop", "@Bdd.bAndLst")],
    "bOrLst": [("bOrLst_loop", "@Bdd.bOrLst")],
    "condModelH": [("condModelH_loop", "@Bdd.condModel")],
}

PRELUDE = """/-! helper functions the translation of iterator / `Option` idioms refers to (trusted, see the mapping table) -/
/-- `Ord::max` on `Option<usize>` (`None` is the least element) -/
def optMax : Option Nat → Option Nat → Option Nat
  | none, b => b
  | a, none => a
  | some a, some b => some (max a b)
/-- `<` on `Option<usize>` (`None` is the least element) -/
def optLt : Option Nat → Option Nat → Bool
  | none, some _ => true
  | some a, some b => decide (a < b)
  | _, none => false
/-- `Iterator::min_by_key`: the FIRST element with the least key -/
def minByKey {α : Type} (f : α → Nat) : List α → Option α
  | [] => none
  | x :: xs => some (xs.foldl (fun acc y => if f y < f acc then y else acc) x)
/-- `Iterator::max_by_key`: the LAST element with the greatest key -/
def maxByKey {α : Type} (f : α → Nat) : List α → Option α
  | [] => none
  | x :: xs => some (xs.foldl (fun acc y => if f acc > f y then acc else y) x)
/-- `Iterator::max` / `min` on labels or levels -/
def listMax : List Nat → Option Nat
  | [] => none
  | x :: xs => some (xs.foldl max x)
def listMin : List Nat → Option Nat
  | [] => none
  | x :: xs => some (xs.foldl min x)
/-- `Iterator::position` -/
def position {α : Type} (f : α → Bool) : List α → Option Nat
  | [] => none
  | x :: xs => if f x then some 0 else (position f xs).map (· + 1)
"""


def fallback_text(name, model, rust, why):
    why = why.replace("\n", " ")[:300]
    if model.startswith("fun"):
        txt = "-- TRANSLATOR ROUTE NOT AVAILABLE for `%s` (%s)\nabbrev %s := %s\n" % (rust, why, name, model)
    else:
        txt = ("-- TRANSLATOR ROUTE NOT AVAILABLE for `%s` (%s):\n-- alias of the hand-written model; tied by the correspondence streams only\n"
               "abbrev %s := @%s\n" % (rust, why, name, model))
    for n2, m2 in EXTRA_ALIAS.get(name, []):
        txt += "abbrev %s := %s\n" % (n2, m2)
    return txt


def elaboration_errors(text):
    """elaborate the generated text once; returns the set of 1-based line numbers with errors, or None when
    the tool chain is not available"""
    import subprocess, tempfile
    leandir = os.path.join(ROOT, "lean")
    tmp = os.path.join(leandir, "RsddModel", "Model", ".GenBddCore_check.lean")
    try:
        open(tmp, "w").write(text)
        r = subprocess.run(["lake", "env", "lean", tmp], cwd=leandir, capture_output=True, text=True, timeout=600)
    except Exception:
        return None
    finally:
        try:
            os.remove(tmp)
        except OSError:
            pass
    out = r.stdout + r.stderr
    lines = set(int(m.group(1)) for m in re.finditer(r"\.GenBddCore_check\.lean:(\d+):\d+: error", out))
    if r.returncode != 0 and not lines:
        return None
    return lines


def main():
    status, parts = {}, []
    for name, model, rust, driver in FUNCTIONS:
        try:
            del _TRS[:]
            _NOTE[0] = None
            text = driver()
            if PLACEHOLDER in text:
                raise Untranslatable("internal: unresolved hole")
            newst = []
            for t_ in _TRS:
                for x_ in t_.new_state:
                    if x_ not in newst:
                        newst.append(x_)
            if newst:
                raise Differs(", ".join(("the builder field `%s`" % x_) if "(" not in x_ else ("`%s`" % x_) for x_ in newst)
                              + " is read/written by the source; the model definition has no state or parameter for it")
            parts.append([name, model, rust, "/-- translated from `%s` -/\n%s\n" % (rust, text)])
            status[rust] = "translated (%s-> Gen.BddCore.%s, tied to %s)" % (
                (_NOTE[0] + "; ") if _NOTE[0] else "", name, model if len(model) < 40 else "its model expression")
        except Differs as e:
            why = ("%s" % e).replace("\n", " ")
            parts.append([name, model, rust, fallback_text(name, model, rust, "DIFFERS (new state): " + why)])
            status[rust] = "DIFFERS (new state): %s" % why[:300]
        except Exception as e:  # never crash: fall back for this function alone
            why = ("%s" % e if isinstance(e, (Untranslatable, OSError)) else "internal %s: %s" % (type(e).__name__, e)).replace("\n", " ")
            if os.environ.get("GEN_DEBUG") and not isinstance(e, Untranslatable):
                traceback.print_exc()
            parts.append([name, model, rust, fallback_text(name, model, rust, why)])
            status[rust] = "UNTRANSLATED (translator route not available, tied by correspondence only): %s" % why[:300]

    def assemble():
        chunks, spans, line = [HEAD, PRELUDE], [], (HEAD + "\n" + PRELUDE + "\n").count("\n") + 1
        for prt in parts:
            n = prt[3].count("\n") + 1
            spans.append((line, line + n - 1, prt))
            line += n
            chunks.append(prt[3])
        chunks.append("end Gen.BddCore\n")
        return "\n".join(chunks), spans

    text, spans = assemble()
    old = open(OUT).read() if os.path.exists(OUT) else None
    # elaboration guard: a generated definition that does not elaborate falls back to its alias, so that an
    # ill-typed translation can never break the build (one that elaborates but differs still breaks its tie)
    rounds = 0
    while text != old and rounds < 6 and not os.environ.get("GEN_NO_ELAB"):
        rounds += 1
        errs = elaboration_errors(text)
        if not errs:
            break
        hit = False
        for lo, hi, prt in spans:
            if any(lo <= e <= hi for e in errs) and "TRANSLATOR ROUTE NOT AVAILABLE" not in prt[3]:
                why = "the generated definition does not elaborate"
                prt[3] = fallback_text(prt[0], prt[1], prt[2], why)
                status[prt[2]] = "UNTRANSLATED (translator route not available, tied by correspondence only): %s" % why
                hit = True
        if not hit:
            break
        text, spans = assemble()
    write_if_changed(OUT, text)
    return status


if __name__ == "__main__":
    for k_, v_ in main().items():
        print(k_, "->", v_)
