//! `ord` stream (C14): variable orders, dtrees, vtrees and the vtree manager
use crate::cnfgen::*;
use crate::common::*;
use crate::rng::Rng;
use crate::sddstream::gen_vtree;
use rsdd::repr::{DTree, VTree, VTreeIndex, VTreeManager, VarLabel, VarOrder, VarSet};
use rsdd::util::btree::BTree;

fn order_str(o: &VarOrder) -> String {
    let n = o.num_vars();
    let p2v: Vec<u64> = (0..n).map(|i| o.var_at_level(i).value()).collect();
    let v2p: Vec<usize> = (0..n).map(|v| o.get(VarLabel::new_usize(v))).collect();
    format!("{}/{}", csv(&p2v), csv(&v2p))
}

pub fn print_vtree(t: &VTree) -> String {
    match t {
        BTree::Leaf(v) => v.value().to_string(),
        BTree::Node((), l, r) => format!("({},{})", print_vtree(l), print_vtree(r)),
    }
}

fn varset(s: &VarSet) -> String {
    s.iter().map(|v| v.value().to_string()).collect::<Vec<_>>().join(".")
}

fn print_dtree(t: &DTree) -> String {
    match t {
        DTree::Node { l, r, cutset, vars } => {
            format!("N[{}/{}]({},{})", varset(cutset), varset(vars), print_dtree(l), print_dtree(r))
        }
        DTree::Leaf { clause, cutset, vars } => {
            let c: Vec<(usize, bool)> = clause.iter().map(|l| (l.label().value_usize(), l.polarity())).collect();
            format!("L[{}/{}]{{{}}}", varset(cutset), varset(vars), print_lits(&c).replace(',', "."))
        }
    }
}

pub fn ord_lines(rng: &mut Rng, idx: u64, maxvars: usize) -> Vec<String> {
    let mut out = Vec::new();
    match idx % 3 {
        0 => {
            // orders of a CNF
            let raw = gen_cnf(rng, maxvars, 2 * maxvars, true);
            let cnf = to_cnf(&raw);
            let head = format!("ord kind=orders n={} cnf={}", cnf.num_vars(), print_cnf(&cnf));
            let r = guarded(|| {
                let lin = cnf.linear_order();
                let mf = guarded(|| order_str(&cnf.min_fill_order())).unwrap_or_else(|e| e);
                let has_empty = cnf.clauses().iter().any(|c| c.is_empty());
                let force = if cnf.clauses().is_empty() || has_empty {
                    "skipped".to_string()
                } else {
                    guarded(|| order_str(&cnf.force_order())).unwrap_or_else(|e| e)
                };
                let mut ext = cnf.linear_order();
                let a = ext.new_last();
                let b = ext.new_last();
                // the same extension on top of the min-fill order (non-identity in general)
                let mfext = guarded(|| {
                    let mut e = cnf.min_fill_order();
                    let x = e.new_last();
                    format!("{},{}", x.value(), order_str(&e))
                })
                .unwrap_or_else(|e| e);
                format!(
                    "linear={} minfill={} force={} ext={},{},{} mfext={}",
                    order_str(&lin), mf, force, a.value(), b.value(), order_str(&ext), mfext
                )
            });
            out.push(format!("{} => {}", head, r.unwrap_or_else(|e| e)));
            // an explicit permutation through VarOrder::new
            let n = rng.range(1, maxvars as u64) as usize;
            let perm = rng.perm(n);
            let head = format!("ord kind=perm order={}", csv(&perm));
            let r = guarded(|| {
                let o = VarOrder::new(&perm.iter().map(|&x| VarLabel::new_usize(x)).collect::<Vec<_>>());
                let lt: String = (0..n)
                    .flat_map(|a| (0..n).map(move |b| (a, b)))
                    .map(|(a, b)| if o.lt(VarLabel::new_usize(a), VarLabel::new_usize(b)) { '1' } else { '0' })
                    .collect();
                let mut ext = VarOrder::new(&perm.iter().map(|&x| VarLabel::new_usize(x)).collect::<Vec<_>>());
                let a = ext.new_last();
                let b = ext.new_last();
                // the accessor API: lte, above / below, last_var, the iterators, Display
                let lte: String = (0..n)
                    .flat_map(|a| (0..n).map(move |b| (a, b)))
                    .map(|(a, b)| if o.lte(VarLabel::new_usize(a), VarLabel::new_usize(b)) { '1' } else { '0' })
                    .collect();
                let nb = |x: Option<VarLabel>| x.map(|v| v.value().to_string()).unwrap_or_else(|| "-".to_string());
                let above: Vec<String> = (0..n).map(|v| nb(o.above(VarLabel::new_usize(v)))).collect();
                let below: Vec<String> = (0..n).map(|v| nb(o.below(VarLabel::new_usize(v)))).collect();
                let fwd: Vec<String> = o.in_order_iter().map(|v| v.value().to_string()).collect();
                let rev: Vec<String> = o.reverse_in_order_iter().map(|v| v.value().to_string()).collect();
                let (lo, hi) = {
                    let a = (perm[0] * 7 + n) % (n + 1);
                    let b = (perm[n - 1] * 5 + 1) % (n + 1);
                    (std::cmp::min(a, b), std::cmp::max(a, b))
                };
                let btw: Vec<String> = o.between_iter(lo, hi).map(|v| v.value().to_string()).collect();
                format!(
                    "order={} lt={} ext={},{},{} lte={} above={} below={} last={} fwd={} rev={} btw={}:{}:{} disp={}",
                    order_str(&o), lt, a.value(), b.value(), order_str(&ext),
                    lte, above.join("."), below.join("."), o.last_var().value(), fwd.join("."), rev.join("."),
                    lo, hi, btw.join("."), format!("{}", o).replace(' ', "")
                )
            });
            out.push(format!("{} => {}", head, r.unwrap_or_else(|e| e)));
        }
        1 => {
            // dtree + derived vtree
            let raw = gen_cnf(rng, maxvars, 2 * maxvars, true);
            let cnf = to_cnf(&raw);
            let n = cnf.num_vars();
            let elim = rng.perm(n);
            let head = format!("ord kind=dtree n={} cnf={} elim={}", n, print_cnf(&cnf), csv(&elim));
            let r = guarded(|| {
                let o = VarOrder::new(&elim.iter().map(|&x| VarLabel::new_usize(x)).collect::<Vec<_>>());
                let dt = DTree::from_cnf(&cnf, &o);
                let vt = VTree::from_dtree(&dt);
                // the manager of the derived vtree (its labels are sparse when the CNF has unused
                // variable indices): variable count and the index of every leaf
                let mgr = vt.as_ref().map(|t| {
                    let m = VTreeManager::new(t.clone());
                    let mut ls: Vec<usize> = Vec::new();
                    fn leaves(t: &VTree, out: &mut Vec<usize>) {
                        match t {
                            rsdd::util::btree::BTree::Leaf(v) => out.push(v.value_usize()),
                            rsdd::util::btree::BTree::Node((), l, r) => {
                                leaves(l, out);
                                leaves(r, out);
                            }
                        }
                    }
                    leaves(t, &mut ls);
                    let idx: Vec<String> = ls.iter().map(|v| format!("{}:{}", v, m.var_index(VarLabel::new_usize(*v)).value())).collect();
                    format!("{};{}", m.num_vars(), idx.join(","))
                });
                format!(
                    "dt={} vt={} width={} mgr={}",
                    print_dtree(&dt),
                    vt.as_ref().map(print_vtree).unwrap_or_else(|| "none".to_string()),
                    dt.cutwidth(),
                    mgr.unwrap_or_else(|| "none".to_string())
                )
            });
            out.push(format!("{} => {}", head, r.unwrap_or_else(|e| e)));
        }
        _ => {
            // vtree constructors and the manager
            let n = rng.range(1, (maxvars + 3) as u64) as usize;
            let labels = rng.perm(n);
            let lbls: Vec<VarLabel> = labels.iter().map(|&x| VarLabel::new_usize(x)).collect();
            let choice = rng.below(5);
            let k = rng.below(4) as usize;
            let gv = gen_vtree(rng, n);
            let built = guarded(|| match choice {
                0 => ("rl".to_string(), VTree::right_linear(&lbls)),
                1 => ("ll".to_string(), VTree::left_linear(&lbls)),
                2 if (1usize << k) <= n => (format!("es{}", k), VTree::even_split(&lbls, k)),
                _ => ("gen".to_string(), gv.to_vtree()),
            });
            let (ctor, t) = match built {
                Ok(x) => x,
                Err(e) => {
                    out.push(format!("ord kind=vtree ctor={} labels={} t=none => {}", choice, csv(&labels), e));
                    return out;
                }
            };
            let head = format!("ord kind=vtree ctor={} labels={} t={}", ctor, csv(&labels), print_vtree(&t));
            let r = guarded(|| {
                let m = VTreeManager::new(t.clone());
                // reachable indices: leaves through var_index, closed under lca
                let mut idxs: Vec<VTreeIndex> = Vec::new();
                let mut varidx = Vec::new();
                for v in 0..n {
                    let i = m.var_index(VarLabel::new_usize(v));
                    varidx.push(i.value());
                    if !idxs.contains(&i) {
                        idxs.push(i);
                    }
                }
                loop {
                    let mut added = false;
                    let cur = idxs.clone();
                    for a in cur.iter() {
                        for b in cur.iter() {
                            let l = m.lca(*a, *b);
                            if !idxs.contains(&l) {
                                idxs.push(l);
                                added = true;
                            }
                        }
                    }
                    if !added {
                        break;
                    }
                }
                idxs.sort();
                let mut lca = Vec::new();
                for a in idxs.iter() {
                    for b in idxs.iter() {
                        lca.push(format!(
                            "{}.{}.{}.{}",
                            a.value(),
                            b.value(),
                            m.lca(*a, *b).value(),
                            m.is_prime_index(*a, *b) as u8
                        ));
                    }
                }
                let subs: Vec<String> = idxs.iter().map(|i| format!("{}:{}", i.value(), print_vtree(m.vtree(*i)))).collect();
                format!(
                    "varidx={} lca={} subs={} numvars={} rl={} ll={}",
                    csv(&varidx),
                    lca.join(","),
                    subs.join(";"),
                    m.num_vars(),
                    t.is_right_linear() as u8,
                    t.is_left_linear() as u8
                )
            });
            out.push(format!("{} => {}", head, r.unwrap_or_else(|e| e)));
        }
    }
    out
}
