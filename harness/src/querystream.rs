//! `query` stream (C10): interleaved queries of different result types over diagrams that share
//! nodes in one builder, compared with the same query on a freshly built copy
use crate::bddgen::*;
use crate::common::*;
use crate::ringstream::f64_exact;
use crate::rng::Rng;
use rsdd::builder::bdd::RobddBuilder;
use rsdd::builder::cache::AllIteTable;
use crate::cnfgen::*;
use rsdd::builder::decision_nnf::{DecisionNNFBuilder, StandardDecisionNNFBuilder};
use rsdd::builder::{BottomUpBuilder, TopDownBuilder};
use rsdd::repr::{SddPtr, VarOrder};
use rsdd::builder::sdd::CompressionSddBuilder;
use crate::sddstream::{exec_sdd, gen_vtree};
use rsdd::constants::primes;
use rsdd::repr::{create_semantic_hash_map, BddPtr, DDNNFPtr, VarLabel, WmcParams};
use rsdd::util::semirings::{FiniteField, RealSemiring};
use std::collections::HashMap;

#[derive(Clone, Debug)]
enum Q {
    W(Vec<(u128, u128)>),
    R(Vec<u64>),
    E(usize),
    N,
    H,
    /// semantic hash under a hand-made normalised map: high weights given, low = 1 - high (mod P)
    G(Vec<u64>),
    M(Vec<usize>, Vec<(u64, u64)>),
    S,
    /// smoothing over a proper prefix of the order (a second width in the same builder)
    T(usize),
    C(usize, bool),
}

impl Q {
    fn print(&self) -> String {
        match self {
            Q::W(w) => format!("W{}", w.iter().map(|(l, h)| format!("{}.{}", l, h)).collect::<Vec<_>>().join("_")),
            Q::R(w) => format!("R{}", w.iter().map(|k| k.to_string()).collect::<Vec<_>>().join("_")),
            Q::E(a) => format!("E{}", a),
            Q::N => "N".to_string(),
            Q::H => "H".to_string(),
            Q::G(w) => format!("G{}", w.iter().map(|k| k.to_string()).collect::<Vec<_>>().join("_")),
            Q::M(q, w) => format!(
                "M{}/{}",
                q.iter().map(|k| k.to_string()).collect::<Vec<_>>().join("_"),
                w.iter().map(|(l, h)| format!("{}.{}", l, h)).collect::<Vec<_>>().join("_")
            ),
            Q::S => "S".to_string(),
            Q::T(k) => format!("T{}", k),
            Q::C(v, b) => format!("C{}.{}", v, *b as u8),
        }
    }
}

fn answer<'a>(b: &'a RobddBuilder<'a, AllIteTable<BddPtr<'a>>>, d: BddPtr<'a>, n: usize, q: &Q) -> String {
    match q {
        Q::W(w) => {
            let mut m = HashMap::new();
            for (i, (l, h)) in w.iter().enumerate() {
                m.insert(
                    VarLabel::new_usize(i),
                    (FiniteField::<{ primes::U64_LARGEST }>::new(*l), FiniteField::<{ primes::U64_LARGEST }>::new(*h)),
                );
            }
            d.unsmoothed_wmc(&WmcParams::new(m)).value().to_string()
        }
        Q::R(w) => {
            let mut m = HashMap::new();
            for (i, k) in w.iter().enumerate() {
                m.insert(VarLabel::new_usize(i), (RealSemiring(1.0 - *k as f64 / 8.0), RealSemiring(*k as f64 / 8.0)));
            }
            f64_exact(d.unsmoothed_wmc(&WmcParams::new(m)).0)
        }
        Q::E(a) => {
            let inst: Vec<bool> = (0..n).map(|x| (a >> x) & 1 == 1).collect();
            (d.evaluate(&inst) as u8).to_string()
        }
        Q::N => d.count_nodes().to_string(),
        Q::H => d.semantic_hash(&create_semantic_hash_map::<{ primes::U64_LARGEST }>(n)).value().to_string(),
        Q::G(w) => {
            const P: u128 = primes::U64_LARGEST;
            let mut m = HashMap::new();
            for (i, k) in w.iter().enumerate() {
                m.insert(VarLabel::new_usize(i), (FiniteField::<P>::new(P + 1 - *k as u128), FiniteField::<P>::new(*k as u128)));
            }
            d.semantic_hash(&WmcParams::new(m)).value().to_string()
        }
        Q::M(q, w) => {
            let mut m = HashMap::new();
            for (i, (l, h)) in w.iter().enumerate() {
                m.insert(VarLabel::new_usize(i), (RealSemiring(*l as f64 / 8.0), RealSemiring(*h as f64 / 8.0)));
            }
            let vars: Vec<VarLabel> = q.iter().map(|&x| VarLabel::new_usize(x)).collect();
            let (v, pm) = d.marginal_map(&vars, n, &WmcParams::new(m));
            let s: String = (0..n)
                .map(|x| match pm.get(VarLabel::new_usize(x)) {
                    None => 'n',
                    Some(true) => 't',
                    Some(false) => 'f',
                })
                .collect();
            format!("{}:{}", f64_exact(v), s)
        }
        Q::S => bdd_raw_string(b.smooth(d, n)),
        Q::T(k) => bdd_raw_string(b.smooth(d, *k)),
        Q::C(v, val) => bdd_raw_string(b.condition(d, VarLabel::new_usize(*v), *val)),
    }
}

fn all_clear(pool: &[BddPtr]) -> bool {
    fn walk(p: BddPtr) -> bool {
        match p {
            BddPtr::PtrTrue | BddPtr::PtrFalse => true,
            BddPtr::Reg(n) | BddPtr::Compl(n) => p.is_scratch_cleared() && walk(n.low) && walk(n.high),
        }
    }
    pool.iter().all(|p| walk(*p))
}

/// the queries that need no builder
fn answer_dnnf<'a>(d: BddPtr<'a>, n: usize, q: &Q) -> String {
    match q {
        Q::W(w) => {
            let mut m = HashMap::new();
            for (i, (l, h)) in w.iter().enumerate() {
                m.insert(
                    VarLabel::new_usize(i),
                    (FiniteField::<{ primes::U64_LARGEST }>::new(*l), FiniteField::<{ primes::U64_LARGEST }>::new(*h)),
                );
            }
            d.unsmoothed_wmc(&WmcParams::new(m)).value().to_string()
        }
        Q::R(w) => {
            let mut m = HashMap::new();
            for (i, k) in w.iter().enumerate() {
                m.insert(VarLabel::new_usize(i), (RealSemiring(1.0 - *k as f64 / 8.0), RealSemiring(*k as f64 / 8.0)));
            }
            f64_exact(d.unsmoothed_wmc(&WmcParams::new(m)).0)
        }
        Q::E(a) => {
            let inst: Vec<bool> = (0..n).map(|x| (a >> x) & 1 == 1).collect();
            (d.evaluate(&inst) as u8).to_string()
        }
        Q::N => d.count_nodes().to_string(),
        _ => "unsupported".to_string(),
    }
}

/// how a pool entry of a decision-DNNF line was obtained (so that a fresh builder can rebuild it)
#[derive(Clone, Copy)]
enum Def {
    Root(bool),
    Cond(usize, usize, bool),
}

fn rebuild<'a>(b: &'a StandardDecisionNNFBuilder<'a>, root: BddPtr<'a>, defs: &[Def], i: usize) -> BddPtr<'a> {
    match defs[i] {
        Def::Root(neg) => {
            if neg {
                root.neg()
            } else {
                root
            }
        }
        Def::Cond(src, v, val) => {
            let s = rebuild(b, root, defs, src);
            b.condition(s, VarLabel::new_usize(v), val)
        }
    }
}

/// decision-DNNF variant: the diagrams are the result of top-down compilation, its negation, and
/// the results of earlier conditionings (which share nodes with their arguments); queries are
/// counts, evaluation, node counts and conditioning through `TopDownBuilder::condition`
fn dnnf_query_line(rng: &mut Rng, maxvars: usize) -> String {
    // mostly satisfiable CNFs with interior structure: clauses of two or three literals
    let raw: RawCnf = if rng.chance(1, 5) {
        gen_cnf(rng, maxvars, 2 * maxvars + 2, false)
    } else {
        let nv = rng.range(3, std::cmp::max(maxvars, 4) as u64) as usize;
        let nc = rng.range(2, (nv + 2) as u64) as usize;
        (0..nc)
            .map(|_| {
                let len = 2 + rng.below(2) as usize;
                (0..len).map(|_| (rng.below(nv as u64) as usize, rng.coin())).collect()
            })
            .collect()
    };
    // a CNF without variables has nothing to condition on: use a one-clause formula instead
    let raw: RawCnf = if to_cnf(&raw).num_vars() == 0 { vec![vec![(0, rng.coin()), (1, rng.coin())]] } else { raw };
    let cnf = to_cnf(&raw);
    let n = cnf.num_vars();
    let order = rng.perm(n);
    let nq = rng.range(5, 16) as usize;
    let mut defs: Vec<Def> = vec![Def::Root(false), Def::Root(true)];
    let mut qs: Vec<(usize, Q)> = Vec::new();
    for _ in 0..nq {
        let i = if rng.chance(1, 2) { defs.len() - 1 - rng.below(std::cmp::min(defs.len(), 3) as u64) as usize } else { rng.below(defs.len() as u64) as usize };
        let q = match rng.below(10) {
            0 => Q::W((0..n).map(|_| (rng.below(5) as u128, rng.below(5) as u128)).collect()),
            1 => Q::R((0..n).map(|_| rng.below(9)).collect()),
            2 => Q::E(rng.below(1 << n) as usize),
            3 | 4 => Q::N,
            _ => {
                let (v, val) = (rng.below(n as u64) as usize, rng.coin());
                defs.push(Def::Cond(i, v, val));
                Q::C(v, val)
            }
        };
        qs.push((i, q));
    }
    let head = format!(
        "query kind=dnnf n={} order={} cnf={} qs={}",
        n,
        csv(&order),
        print_cnf(&cnf),
        qs.iter().map(|(i, q)| format!("{}:{}", i, q.print())).collect::<Vec<_>>().join(",")
    );
    let mk = |order: &[usize]| VarOrder::new(&order.iter().map(|&x| VarLabel::new_usize(x)).collect::<Vec<_>>());
    let r = guarded(|| {
        rsdd::verif_hooks::set_table_capacity(Some(8));
        let b = StandardDecisionNNFBuilder::new(mk(&order));
        let root = b.compile_cnf_topdown(&cnf);
        let mut pool: Vec<BddPtr> = vec![root, root.neg()];
        let mut ans = Vec::new();
        let mut trees = Vec::new();
        let mut clear = String::new();
        for (i, q) in qs.iter() {
            trees.push(bdd_raw_string(pool[*i]));
            match q {
                Q::C(v, val) => {
                    let c = b.condition(pool[*i], VarLabel::new_usize(*v), *val);
                    pool.push(c);
                    ans.push(bdd_raw_string(c));
                }
                _ => ans.push(answer_dnnf(pool[*i], n, q)),
            }
            clear.push(if all_clear(&pool) { '1' } else { '0' });
        }
        // each query alone on a freshly built copy of its argument
        let mut fresh = Vec::new();
        for (i, q) in qs.iter() {
            let fb = StandardDecisionNNFBuilder::new(mk(&order));
            let froot = fb.compile_cnf_topdown(&cnf);
            let d = rebuild(&fb, froot, &defs, *i);
            fresh.push(match q {
                Q::C(v, val) => bdd_raw_string(fb.condition(d, VarLabel::new_usize(*v), *val)),
                _ => answer_dnnf(d, n, q),
            });
        }
        format!("ans={} fresh={} clear={} trees={}", ans.join("|"), fresh.join("|"), clear, trees.join("|"))
    });
    format!("{} => {}", head, r.unwrap_or_else(|e| e))
}

const DERIVED: usize = 1_000_000;

/// the diagram a target index refers to, rebuilt in a fresh builder: pool entries directly,
/// derived ones by replaying only the smoothing / conditioning queries they come from
fn rebuild_bdd<'a>(
    b: &'a RobddBuilder<'a, AllIteTable<BddPtr<'a>>>,
    pool: &[BddPtr<'a>],
    earlier: &[(usize, Q)],
    target: usize,
    n: usize,
) -> BddPtr<'a> {
    if target < DERIVED {
        return pool[target];
    }
    let mut k = 0usize;
    for (pos, (i, q)) in earlier.iter().enumerate() {
        if matches!(q, Q::S | Q::C(..)) {
            if k == target - DERIVED {
                let src = rebuild_bdd(b, pool, &earlier[..pos], *i, n);
                return match q {
                    Q::S => b.smooth(src, n),
                    Q::C(v, val) => b.condition(src, VarLabel::new_usize(*v), *val),
                    _ => unreachable!(),
                };
            }
            k += 1;
        }
    }
    panic!("derived target not found")
}


fn sdd_all_clear(pool: &[SddPtr]) -> bool {
    fn walk(p: SddPtr) -> bool {
        match p {
            SddPtr::PtrTrue | SddPtr::PtrFalse | SddPtr::Var(..) => true,
            SddPtr::BDD(_) | SddPtr::ComplBDD(_) => p.is_scratch_cleared() && walk(p.low_raw_sdd()) && walk(p.high_raw_sdd()),
            SddPtr::Reg(_) | SddPtr::Compl(_) => p.is_scratch_cleared() && p.node_iter().all(|a| walk(a.prime()) && walk(a.sub())),
        }
    }
    pool.iter().all(|p| walk(*p))
}

trait RawSdd<'a> {
    fn low_raw_sdd(&self) -> SddPtr<'a>;
    fn high_raw_sdd(&self) -> SddPtr<'a>;
}
impl<'a> RawSdd<'a> for SddPtr<'a> {
    fn low_raw_sdd(&self) -> SddPtr<'a> {
        match self {
            SddPtr::BDD(b) | SddPtr::ComplBDD(b) => b.low(),
            _ => *self,
        }
    }
    fn high_raw_sdd(&self) -> SddPtr<'a> {
        match self {
            SddPtr::BDD(b) | SddPtr::ComplBDD(b) => b.high(),
            _ => *self,
        }
    }
}

fn answer_sdd(d: SddPtr, n: usize, q: &Q) -> String {
    match q {
        Q::W(w) => {
            let mut m = HashMap::new();
            for (i, (l, h)) in w.iter().enumerate() {
                m.insert(
                    VarLabel::new_usize(i),
                    (FiniteField::<{ primes::U64_LARGEST }>::new(*l), FiniteField::<{ primes::U64_LARGEST }>::new(*h)),
                );
            }
            d.unsmoothed_wmc(&WmcParams::new(m)).value().to_string()
        }
        Q::R(w) => {
            let mut m = HashMap::new();
            for (i, k) in w.iter().enumerate() {
                m.insert(VarLabel::new_usize(i), (RealSemiring(1.0 - *k as f64 / 8.0), RealSemiring(*k as f64 / 8.0)));
            }
            f64_exact(d.unsmoothed_wmc(&WmcParams::new(m)).0)
        }
        Q::E(a) => {
            let inst: Vec<bool> = (0..n).map(|x| (a >> x) & 1 == 1).collect();
            (d.evaluate(&inst) as u8).to_string()
        }
        Q::N => d.count_nodes().to_string(),
        _ => "unsupported".to_string(),
    }
}

/// SDD variant: diagrams of one compressing SDD builder (the largest pool entries and their
/// negations, which share every node), queries of several result types with several weight
/// maps; after every call every scratch slot reachable from any of them must be empty
fn sdd_query_line(rng: &mut Rng, maxvars: usize, maxops: usize) -> String {
    let n = rng.range(3, std::cmp::max(maxvars, 4) as u64) as usize;
    let nops = rng.range(8, maxops as u64) as usize;
    let prog = gen_program_x(rng, n, nops, false, true);
    let vt = gen_vtree(rng, n);
    let nq = rng.range(5, 14) as usize;
    let qs: Vec<(usize, bool, Q)> = (0..nq)
        .map(|_| {
            let q = match rng.below(8) {
                0 | 1 | 2 => Q::W((0..n).map(|_| (rng.below(5) as u128, rng.below(5) as u128)).collect()),
                3 | 4 => Q::R((0..n).map(|_| rng.below(9)).collect()),
                5 => Q::E(rng.below(1 << n) as usize),
                _ => Q::N,
            };
            (rng.below(3) as usize, rng.coin(), q)
        })
        .collect();
    let head = format!(
        "query kind=sdd n={} vtree={} ops={} qs={}",
        n,
        vt.print(),
        prog.ops.iter().map(|o| o.print()).collect::<Vec<_>>().join("|"),
        qs.iter().map(|(i, neg, q)| format!("{}{}:{}", if *neg { "-" } else { "" }, i, q.print())).collect::<Vec<_>>().join(",")
    );
    let r = guarded(|| {
        rsdd::verif_hooks::set_table_capacity(Some(8));
        let pick = |pool: &[SddPtr]| -> Vec<usize> {
            let mut by_size: Vec<(usize, usize)> = pool.iter().enumerate().map(|(i, p)| (p.count_nodes(), i)).collect();
            by_size.sort_by(|a, b| b.cmp(a));
            let mut picks: Vec<usize> = Vec::new();
            for (_, i) in by_size {
                if picks.len() < 3 && !picks.iter().any(|&j| pool[j] == pool[i]) {
                    picks.push(i);
                }
            }
            while picks.len() < 3 {
                picks.push(picks[0]);
            }
            picks
        };
        let b = CompressionSddBuilder::new(vt.to_vtree());
        let pool = exec_sdd(&b, &prog.ops);
        let picks = pick(&pool);
        let mut watched: Vec<SddPtr> = Vec::new();
        for &i in picks.iter() {
            watched.push(pool[i]);
            watched.push(pool[i].neg());
        }
        let tt = |p: SddPtr| -> String {
            (0..(1usize << n)).map(|a| { let inst: Vec<bool> = (0..n).map(|x| (a >> x) & 1 == 1).collect(); if p.evaluate(&inst) { '1' } else { '0' } }).collect()
        };
        let mut ans = Vec::new();
        let mut tts = Vec::new();
        let mut clear = String::new();
        for (i, neg, q) in qs.iter() {
            let d = if *neg { pool[picks[*i]].neg() } else { pool[picks[*i]] };
            ans.push(answer_sdd(d, n, q));
            clear.push(if sdd_all_clear(&watched) { '1' } else { '0' });
            tts.push(tt(d));
        }
        let mut fresh = Vec::new();
        for (i, neg, q) in qs.iter() {
            let fb = CompressionSddBuilder::new(vt.to_vtree());
            let fpool = exec_sdd(&fb, &prog.ops);
            let fp = pick(&fpool);
            let d = if *neg { fpool[fp[*i]].neg() } else { fpool[fp[*i]] };
            fresh.push(answer_sdd(d, n, q));
        }
        format!("ans={} fresh={} clear={} tts={}", ans.join("|"), fresh.join("|"), clear, tts.join("|"))
    });
    format!("{} => {}", head, r.unwrap_or_else(|e| e))
}

pub fn query_line(rng: &mut Rng, maxvars: usize, maxops: usize) -> String {
    match rng.below(8) {
        0 | 1 => return dnnf_query_line(rng, maxvars),
        2 | 3 => return sdd_query_line(rng, maxvars, maxops),
        _ => {}
    }
    let n = rng.range(2, maxvars as u64) as usize;
    let nops = rng.range(6, maxops as u64) as usize;
    let prog = gen_program(rng, n, nops, false);
    let nq = rng.range(4, 14) as usize;
    // the five largest distinct diagrams of the pool (they share nodes with each other)
    let big: Vec<usize> = {
        rsdd::verif_hooks::set_table_capacity(Some(8));
        let pb = RobddBuilder::<AllIteTable<BddPtr>>::new(mk_order(&prog.order));
        match guarded(|| exec(&pb, &prog.ops)) {
            Ok(pool) => {
                let mut by_size: Vec<(usize, usize)> =
                    pool.iter().enumerate().map(|(i, p)| (bdd_raw_string(*p).len(), i)).collect();
                by_size.sort_by(|a, b| b.cmp(a));
                let mut picks: Vec<usize> = Vec::new();
                for (_, i) in by_size {
                    if picks.len() < 5 && !picks.iter().any(|&j| pool[j] == pool[i]) {
                        picks.push(i);
                    }
                }
                picks
            }
            Err(_) => vec![0],
        }
    };
    // results of smoothing and conditioning join the diagrams later queries may address
    // (index DERIVED + k = result of the k-th smoothing / conditioning query)
    let mut nderived = 0usize;
    let qs: Vec<(usize, Q)> = (0..nq)
        .map(|_| {
            let i = if nderived > 0 && rng.chance(1, 2) { DERIVED + rng.below(nderived as u64) as usize } else { *rng.pick(&big) };
            let q = match rng.below(9) {
                8 if n >= 2 && rng.coin() => Q::T(1 + rng.below((n - 1) as u64) as usize),
                8 => Q::G((0..n).map(|_| 2 + rng.below(1000)).collect()),
                0 => Q::W((0..n).map(|_| (rng.below(5) as u128, rng.below(5) as u128)).collect()),
                1 => Q::R((0..n).map(|_| rng.below(9)).collect()),
                2 => Q::E(rng.below(1 << n) as usize),
                3 => Q::N,
                4 => Q::H,
                5 => {
                    let k = rng.below(std::cmp::min(n, 3) as u64 + 1) as usize;
                    let mut q = rng.perm(n);
                    q.truncate(k);
                    let w = (0..n)
                        .map(|v| {
                            if q.contains(&v) {
                                (rng.below(9), rng.below(9))
                            } else {
                                let h = rng.below(9);
                                (8 - h, h)
                            }
                        })
                        .collect();
                    Q::M(q, w)
                }
                6 => Q::S,
                _ => Q::C(rng.below(n as u64) as usize, rng.coin()),
            };
            if matches!(q, Q::S | Q::C(..)) {
                nderived += 1;
            }
            (i, q)
        })
        .collect();
    let head = format!(
        "query n={} order={} ops={} qs={}",
        n,
        csv(&prog.order),
        prog.ops.iter().map(|o| o.print()).collect::<Vec<_>>().join("|"),
        qs.iter().map(|(i, q)| format!("{}:{}", i, q.print())).collect::<Vec<_>>().join(",")
    );
    let r = guarded(|| {
        rsdd::verif_hooks::set_table_capacity(Some(8));
        let b = RobddBuilder::<AllIteTable<BddPtr>>::new(mk_order(&prog.order));
        let pool = exec(&b, &prog.ops);
        let mut ans = Vec::new();
        let mut clear = String::new();
        let mut derived: Vec<BddPtr> = Vec::new();
        let mut trees: Vec<String> = Vec::new();
        for (i, q) in qs.iter() {
            let d = if *i >= DERIVED { derived[*i - DERIVED] } else { pool[*i] };
            trees.push(bdd_raw_string(d));
            match q {
                Q::S => {
                    let r = b.smooth(d, n);
                    derived.push(r);
                    ans.push(bdd_raw_string(r));
                }
                Q::C(v, val) => {
                    let r = b.condition(d, VarLabel::new_usize(*v), *val);
                    derived.push(r);
                    ans.push(bdd_raw_string(r));
                }
                _ => ans.push(answer(&b, d, n, q)),
            }
            let all: Vec<BddPtr> = pool.iter().chain(derived.iter()).cloned().collect();
            clear.push(if all_clear(&all) { '1' } else { '0' });
        }
        // each query alone on a freshly built copy of its argument
        let mut fresh = Vec::new();
        for (k, (i, q)) in qs.iter().enumerate() {
            let fb = RobddBuilder::<AllIteTable<BddPtr>>::new(mk_order(&prog.order));
            let fpool = exec(&fb, &prog.ops);
            let d = rebuild_bdd(&fb, &fpool, &qs[..k], *i, n);
            fresh.push(answer(&fb, d, n, q));
        }
        let _ = b.true_ptr();
        format!("ans={} fresh={} clear={} trees={}", ans.join("|"), fresh.join("|"), clear, trees.join("|"))
    });
    format!("{} => {}", head, r.unwrap_or_else(|e| e))
}
