//! `sdd` stream (C03, C04): operation programs over the compressing SDD builder
use crate::bddgen::*;
use crate::common::*;
use crate::rng::Rng;
use rsdd::builder::sdd::{CompressionSddBuilder, SddBuilder};
use rsdd::builder::BottomUpBuilder;
use rsdd::repr::{DDNNFPtr, SddPtr, VTree, VarLabel};

#[derive(Clone, Debug)]
pub enum VT {
    Leaf(usize),
    Node(Box<VT>, Box<VT>),
}

impl VT {
    pub fn print(&self) -> String {
        match self {
            VT::Leaf(v) => v.to_string(),
            VT::Node(l, r) => format!("({},{})", l.print(), r.print()),
        }
    }
    pub fn to_vtree(&self) -> VTree {
        match self {
            VT::Leaf(v) => VTree::new_leaf(VarLabel::new_usize(*v)),
            VT::Node(l, r) => VTree::new_node(Box::new(l.to_vtree()), Box::new(r.to_vtree())),
        }
    }
}

fn right_linear(labels: &[usize]) -> VT {
    if labels.len() == 1 {
        VT::Leaf(labels[0])
    } else {
        VT::Node(Box::new(VT::Leaf(labels[0])), Box::new(right_linear(&labels[1..])))
    }
}

fn left_linear(labels: &[usize]) -> VT {
    if labels.len() == 1 {
        VT::Leaf(labels[0])
    } else {
        let n = labels.len();
        VT::Node(Box::new(left_linear(&labels[..n - 1])), Box::new(VT::Leaf(labels[n - 1])))
    }
}

fn random_split(rng: &mut Rng, labels: &[usize], balanced: bool) -> VT {
    if labels.len() == 1 {
        return VT::Leaf(labels[0]);
    }
    let k = if balanced { labels.len() / 2 } else { 1 + rng.below(labels.len() as u64 - 1) as usize };
    VT::Node(
        Box::new(random_split(rng, &labels[..k], balanced)),
        Box::new(random_split(rng, &labels[k..], balanced)),
    )
}

pub fn gen_vtree(rng: &mut Rng, n: usize) -> VT {
    let labels: Vec<usize> = if rng.coin() { (0..n).collect() } else { rng.perm(n) };
    // one vtree in four (for n >= 4): a right-linear block of three or four variables as the LEFT
    // child of the root, so that decision nodes at the root have several binary-decision primes
    // over the same top variable
    if n >= 4 && rng.chance(1, 4) {
        let k = if n >= 5 && rng.coin() { 4 } else { 3 };
        let left = right_linear(&labels[..k]);
        let right = if rng.coin() { right_linear(&labels[k..]) } else { random_split(rng, &labels[k..], false) };
        return VT::Node(Box::new(left), Box::new(right));
    }
    match rng.below(6) {
        0 => right_linear(&labels),
        1 => left_linear(&labels),
        2 => random_split(rng, &labels, true),
        _ => random_split(rng, &labels, false),
    }
}

/// canonical print: complement pushed into the subs, elements sorted by the printed prime
pub fn sdd_canon(p: SddPtr, neg: bool) -> String {
    match p {
        SddPtr::PtrTrue => (if neg { "F" } else { "T" }).to_string(),
        SddPtr::PtrFalse => (if neg { "T" } else { "F" }).to_string(),
        SddPtr::Var(l, pol) => {
            if pol != neg {
                l.value().to_string()
            } else {
                format!("-{}", l.value())
            }
        }
        _ => {
            let n = neg != p.is_neg();
            let mut elems: Vec<(String, String)> = p
                .node_iter()
                .map(|a| (sdd_canon(a.prime(), false), sdd_canon(a.sub(), n)))
                .collect();
            // the order the model's printer uses: the printed prime with blanks as separators
            // (`[1 (` sorts before `[11 (`, whereas `[11_(` would sort before `[1_(`)
            elems.sort_by(|a, b| a.0.replace('_', " ").cmp(&b.0.replace('_', " ")));
            let body: Vec<String> = elems.iter().map(|(p, s)| format!("({}_{})", p, s)).collect();
            format!("[{}_{}]", p.vtree().value(), body.join("_"))
        }
    }
}

/// raw structure, stored element order and complement bits as they are:
/// `T F v -v B(c.label.idx.lo.hi) D(c.idx.p:s.p:s…)`
pub fn sdd_raw(p: SddPtr) -> String {
    match p {
        SddPtr::PtrTrue => "T".to_string(),
        SddPtr::PtrFalse => "F".to_string(),
        SddPtr::Var(l, pol) => format!("{}{}", if pol { "" } else { "-" }, l.value()),
        SddPtr::BDD(b) | SddPtr::ComplBDD(b) => format!(
            "B({}.{}.{}.{}.{})",
            p.is_neg() as u8,
            b.label().value(),
            b.index().value(),
            sdd_raw(b.low()),
            sdd_raw(b.high())
        ),
        SddPtr::Reg(o) | SddPtr::Compl(o) => format!(
            "D({}.{}.{})",
            p.is_neg() as u8,
            o.index().value(),
            o.iter().map(|a| format!("{}:{}", sdd_raw(a.prime()), sdd_raw(a.sub()))).collect::<Vec<_>>().join(".")
        ),
    }
}

pub fn exec_sdd<'a>(b: &'a CompressionSddBuilder<'a>, ops: &[Op]) -> Vec<SddPtr<'a>> {
    let mut pool: Vec<SddPtr<'a>> = Vec::new();
    for op in ops {
        let r = match op {
            Op::Const(v) => {
                if *v {
                    b.true_ptr()
                } else {
                    b.false_ptr()
                }
            }
            Op::Var(x, p) => b.var(VarLabel::new_usize(*x), *p),
            Op::Neg(i) => b.negate(pool[*i]),
            Op::And(i, j) => b.and(pool[*i], pool[*j]),
            Op::Or(i, j) => b.or(pool[*i], pool[*j]),
            Op::Xor(i, j) => b.xor(pool[*i], pool[*j]),
            Op::Iff(i, j) => b.iff(pool[*i], pool[*j]),
            Op::Ite(i, j, k) => b.ite(pool[*i], pool[*j], pool[*k]),
            Op::Cond(i, x, v) => b.condition(pool[*i], VarLabel::new_usize(*x), *v),
            Op::Exist(i, x) => b.exists(pool[*i], VarLabel::new_usize(*x)),
            Op::Compose(i, x, j) => b.compose(pool[*i], VarLabel::new_usize(*x), pool[*j]),
            _ => panic!("operation not available on the SDD builder"),
        };
        pool.push(r);
    }
    pool
}

pub fn sdd_line(rng: &mut Rng, maxvars: usize, maxops: usize) -> String {
    let n = rng.range(2, maxvars as u64) as usize;
    let nops = rng.range(6, maxops as u64) as usize;
    let prog = gen_program_x(rng, n, nops, false, true);
    let vt = gen_vtree(rng, n);
    let compress = rng.chance(3, 4);
    let tbl = [0usize, 4, 8][rng.below(3) as usize];
    // without compression diagrams (and the implementation's structural comparisons of element
    // vectors) grow quickly: keep those programs short (operands only refer backwards)
    let mut prog = prog;
    // (one uncompressed program in four is allowed 40 operations; the per-case watchdog bounds
    // what that costs)
    let cap = if rng.chance(1, 4) { 40 } else { 24 };
    if !compress && prog.ops.len() > cap {
        prog.ops.truncate(cap);
    }
    // uncompressed stress (half of the uncompressed programs): a left-linear vtree, and products
    // of the most recent results appended — without compression, conditioning and quantification
    // leave nodes whose primes overlap, and products of such nodes are the only way to reach
    // decision nodes with dozens of elements at these variable counts
    let mut vt = vt;
    if !compress && rng.chance(1, 2) {
        let mut labels: Vec<usize> = (0..n).collect();
        rng.shuffle(&mut labels);
        vt = left_linear(&labels);
        let base = prog.ops.len();
        if base >= 4 && n >= 4 {
            // condition / quantify three earlier results on the variables deepest on the LEFT of
            // the vtree (without compression the primes of the results coincide or overlap) …
            let mut conds: Vec<usize> = Vec::new();
            for k in 0..3 {
                let src = base - 1 - rng.below(std::cmp::min(base, 10) as u64) as usize;
                let v = labels[k % 2];
                prog.ops.push(if rng.coin() { Op::Cond(src, v, rng.coin()) } else { Op::Exist(src, v) });
                conds.push(prog.ops.len() - 1);
            }
            // … and multiply them up in a chain: element counts compound
            let mut acc = conds[0];
            for k in 0..7 {
                let other = if k < 2 { conds[k + 1] } else { prog.ops.len() - 1 - rng.below(4) as usize };
                prog.ops.push(if rng.chance(2, 3) { Op::And(acc, other) } else { Op::Or(acc, other) });
                acc = prog.ops.len() - 1;
            }
        }
    }
    let head = format!(
        "sdd n={} vtree={} compress={} tbl={} ops={}",
        n,
        vt.print(),
        compress as u8,
        tbl,
        prog.ops.iter().map(|o| o.print()).collect::<Vec<_>>().join("|")
    );
    if std::env::var("HARNESS_DEBUG").is_ok() {
        eprintln!("{}", head);
    }
    let r = guarded(|| {
        rsdd::verif_hooks::set_table_capacity(if tbl == 0 { None } else { Some(tbl) });
        let mut b = CompressionSddBuilder::new(vt.to_vtree());
        b.set_compression(compress);
        let b = b;
        let pool = exec_sdd(&b, &prog.ops);
        let printed: Vec<String> = pool.iter().map(|p| sdd_canon(*p, false)).collect();
        let cls: Vec<usize> = (0..pool.len())
            .map(|i| (0..=i).find(|&j| b.eq(pool[j], pool[i])).unwrap())
            .collect();
        let flags: Vec<String> = pool
            .iter()
            .map(|p| format!("{}{}", p.is_compressed() as u8, p.is_trimmed() as u8))
            .collect();
        let raw: Vec<String> = pool.iter().map(|p| sdd_raw(*p)).collect();
        format!(
            "res={} eq={} ct={} numvars={} raw={}",
            printed.join("|"), csv(&cls), flags.join(","), b.num_vars(), raw.join("|")
        )
    });
    format!("{} => {}", head, r.unwrap_or_else(|e| e))
}
