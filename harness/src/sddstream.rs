//! `sdd` stream (C03, C04): operation programs over the compressing SDD builder
use crate::bddgen::*;
use crate::common::*;
use crate::rng::Rng;
use rsdd::builder::sdd::{CompressionSddBuilder, SddBuilder};
use rsdd::builder::BottomUpBuilder;
use rsdd::repr::{DDNNFPtr, SddPtr, VTree, VarLabel};

#[derive(Clone, Debug)]
pub enum VT {
    Leaf(usize),
    Node(Box<VT>, Box<VT>),
}

impl VT {
    pub fn print(&self) -> String {
        match self {
            VT::Leaf(v) => v.to_string(),
            VT::Node(l, r) => format!("({},{})", l.print(), r.print()),
        }
    }
    pub fn to_vtree(&self) -> VTree {
        match self {
            VT::Leaf(v) => VTree::new_leaf(VarLabel::new_usize(*v)),
            VT::Node(l, r) => VTree::new_node(Box::new(l.to_vtree()), Box::new(r.to_vtree())),
        }
    }
}

fn right_linear(labels: &[usize]) -> VT {
    if labels.len() == 1 {
        VT::Leaf(labels[0])
    } else {
        VT::Node(Box::new(VT::Leaf(labels[0])), Box::new(right_linear(&labels[1..])))
    }
}

fn left_linear(labels: &[usize]) -> VT {
    if labels.len() == 1 {
        VT::Leaf(labels[0])
    } else {
        let n = labels.len();
        VT::Node(Box::new(left_linear(&labels[..n - 1])), Box::new(VT::Leaf(labels[n - 1])))
    }
}

fn random_split(rng: &mut Rng, labels: &[usize], balanced: bool) -> VT {
    if labels.len() == 1 {
        return VT::Leaf(labels[0]);
    }
    let k = if balanced { labels.len() / 2 } else { 1 + rng.below(labels.len() as u64 - 1) as usize };
    VT::Node(
        Box::new(random_split(rng, &labels[..k], balanced)),
        Box::new(random_split(rng, &labels[k..], balanced)),
    )
}

pub fn gen_vtree(rng: &mut Rng, n: usize) -> VT {
    let labels: Vec<usize> = if rng.coin() { (0..n).collect() } else { rng.perm(n) };
    // one vtree in four (for n >= 4): a right-linear block of three or four variables as the LEFT
    // child of the root, so that decision nodes at the root have several binary-decision primes
    // over the same top variable
    if n >= 4 && rng.chance(1, 4) {
        let k = if n >= 5 && rng.coin() { 4 } else { 3 };
        let left = right_linear(&labels[..k]);
        let right = if rng.coin() { right_linear(&labels[k..]) } else { random_split(rng, &labels[k..], false) };
        return VT::Node(Box::new(left), Box::new(right));
    }
    match rng.below(6) {
        0 => right_linear(&labels),
        1 => left_linear(&labels),
        2 => random_split(rng, &labels, true),
        _ => random_split(rng, &labels, false),
    }
}

/// canonical print: complement pushed into the subs, elements sorted by the printed prime
pub fn sdd_canon(p: SddPtr, neg: bool) -> String {
    match p {
        SddPtr::PtrTrue => (if neg { "F" } else { "T" }).to_string(),
        SddPtr::PtrFalse => (if neg { "T" } else { "F" }).to_string(),
        SddPtr::Var(l, pol) => {
            if pol != neg {
                l.value().to_string()
            } else {
                format!("-{}", l.value())
            }
        }
        _ => {
            let n = neg != p.is_neg();
            let mut elems: Vec<(String, String)> = p
                .node_iter()
                .map(|a| (sdd_canon(a.prime(), false), sdd_canon(a.sub(), n)))
                .collect();
            // the order the model's printer uses: the printed prime with blanks as separators
            // (`[1 (` sorts before `[11 (`, whereas `[11_(` would sort before `[1_(`)
            elems.sort_by(|a, b| a.0.replace('_', " ").cmp(&b.0.replace('_', " ")));
            let body: Vec<String> = elems.iter().map(|(p, s)| format!("({}_{})", p, s)).collect();
            format!("[{}_{}]", p.vtree().value(), body.join("_"))
        }
    }
}

/// raw structure, stored element order and complement bits as they are:
/// `T F v -v B(c.label.idx.lo.hi) D(c.idx.p:s.p:s…)`
pub fn sdd_raw(p: SddPtr) -> String {
    match p {
        SddPtr::PtrTrue => "T".to_string(),
        SddPtr::PtrFalse => "F".to_string(),
        SddPtr::Var(l, pol) => format!("{}{}", if pol { "" } else { "-" }, l.value()),
        SddPtr::BDD(b) | SddPtr::ComplBDD(b) => format!(
            "B({}.{}.{}.{}.{})",
            p.is_neg() as u8,
            b.label().value(),
            b.index().value(),
            sdd_raw(b.low()),
            sdd_raw(b.high())
        ),
        SddPtr::Reg(o) | SddPtr::Compl(o) => format!(
            "D({}.{}.{})",
            p.is_neg() as u8,
            o.index().value(),
            o.iter().map(|a| format!("{}:{}", sdd_raw(a.prime()), sdd_raw(a.sub()))).collect::<Vec<_>>().join(".")
        ),
    }
}

pub fn exec_sdd<'a>(b: &'a CompressionSddBuilder<'a>, ops: &[Op]) -> Vec<SddPtr<'a>> {
    let mut pool: Vec<SddPtr<'a>> = Vec::new();
    for op in ops {
        let r = match op {
            Op::Const(v) => {
                if *v {
                    b.true_ptr()
                } else {
                    b.false_ptr()
                }
            }
            Op::Var(x, p) => b.var(VarLabel::new_usize(*x), *p),
            Op::Neg(i) => b.negate(pool[*i]),
            Op::And(i, j) => b.and(pool[*i], pool[*j]),
            Op::Or(i, j) => b.or(pool[*i], pool[*j]),
            Op::Xor(i, j) => b.xor(pool[*i], pool[*j]),
            Op::Iff(i, j) => b.iff(pool[*i], pool[*j]),
            Op::Ite(i, j, k) => b.ite(pool[*i], pool[*j], pool[*k]),
            Op::Cond(i, x, v) => b.condition(pool[*i], VarLabel::new_usize(*x), *v),
            Op::Exist(i, x) => b.exists(pool[*i], VarLabel::new_usize(*x)),
            Op::Compose(i, x, j) => b.compose(pool[*i], VarLabel::new_usize(*x), pool[*j]),
            _ => panic!("operation not available on the SDD builder"),
        };
        pool.push(r);
    }
    pool
}

/// "wide partitions": a vtree whose left child has four variables and whose right child has two;
/// functions given by a table x-minterm -> function of (y0, y1), so that decision nodes with up
/// to sixteen elements arise, the same sub (and its complement) recurring among them; the same
/// function is reached by two histories (conjunction of two tables / the pointwise table)
fn wide_program(rng: &mut Rng) -> (Vec<Op>, VT) {
    let mut labels = rng.perm(6);
    let (y0, y1) = (labels.pop().unwrap(), labels.pop().unwrap());
    let xs = labels; // four x variables
    let leaf = |v: usize| Box::new(VT::Leaf(v));
    let left = if rng.coin() {
        VT::Node(leaf(xs[0]), Box::new(VT::Node(leaf(xs[1]), Box::new(VT::Node(leaf(xs[2]), leaf(xs[3]))))))
    } else {
        VT::Node(Box::new(VT::Node(leaf(xs[0]), leaf(xs[1]))), Box::new(VT::Node(leaf(xs[2]), leaf(xs[3]))))
    };
    let vt = VT::Node(Box::new(left), Box::new(VT::Node(leaf(y0), leaf(y1))));
    let mut ops: Vec<Op> = Vec::new();
    // the functions of (y0, y1), indexed by their 4-bit truth table (bit = y0 + 2*y1)
    ops.push(Op::Var(y0, true)); // 0
    ops.push(Op::Var(y1, true)); // 1
    ops.push(Op::And(0, 1)); // 2: 1000
    ops.push(Op::Or(0, 1)); // 3: 1110
    ops.push(Op::Xor(0, 1)); // 4: 0110
    ops.push(Op::Neg(0)); // 5
    ops.push(Op::Neg(1)); // 6
    ops.push(Op::Neg(2)); // 7
    ops.push(Op::Neg(3)); // 8
    ops.push(Op::Neg(4)); // 9
    ops.push(Op::Const(true)); // 10
    ops.push(Op::Const(false)); // 11
    ops.push(Op::And(5, 1)); // 12: !y0 . y1
    ops.push(Op::And(0, 6)); // 13: y0 . !y1
    ops.push(Op::Neg(12)); // 14
    ops.push(Op::Neg(13)); // 15
    // truth tables (bit k = value at y0 = k&1, y1 = k>>1) of pool entries 0..15: all sixteen functions
    let tts: [u8; 16] = [
        0b1010, 0b1100, 0b1000, 0b1110, 0b0110, 0b0101, 0b0011, 0b0111, 0b0001, 0b1001, 0b1111, 0b0000, 0b0100, 0b0010, 0b1011,
        0b1101,
    ];
    // the sixteen x-minterms
    let mut cubes: Vec<usize> = Vec::new();
    for m in 0..16usize {
        ops.push(Op::Var(xs[0], m & 1 == 1));
        let mut acc = ops.len() - 1;
        for k in 1..4 {
            ops.push(Op::Var(xs[k], (m >> k) & 1 == 1));
            let l = ops.len() - 1;
            ops.push(Op::And(acc, l));
            acc = ops.len() - 1;
        }
        cubes.push(acc);
    }
    let table = |rng: &mut Rng| -> Vec<usize> { (0..16).map(|_| rng.below(16) as usize).collect() };
    let build = |ops: &mut Vec<Op>, t: &Vec<usize>, order: &Vec<usize>| -> usize {
        let mut acc: Option<usize> = None;
        for &m in order.iter() {
            ops.push(Op::And(cubes[m], t[m]));
            let term = ops.len() - 1;
            acc = Some(match acc {
                None => term,
                Some(a) => {
                    ops.push(Op::Or(a, term));
                    ops.len() - 1
                }
            });
        }
        acc.unwrap()
    };
    let (tf, tg) = (table(rng), table(rng));
    let o1 = rng.perm(16);
    let o2 = rng.perm(16);
    let f = build(&mut ops, &tf, &o1);
    let g = build(&mut ops, &tg, &o2);
    ops.push(Op::And(f, g));
    ops.push(Op::Or(f, g));
    // the pointwise tables of f.g, built directly in a third order (must be the same nodes)
    let find = |tt: u8| tts.iter().position(|x| *x == tt).unwrap();
    let th: Vec<usize> = (0..16).map(|m| find(tts[tf[m]] & tts[tg[m]])).collect();
    let o3 = rng.perm(16);
    let _h2 = build(&mut ops, &th, &o3);
    (ops, vt)
}

/// the lines of one case: the ordinary program and, for one case in ten, a wide-partition program
/// IN ADDITION (drawn from a copy of the generator state, so that the ordinary line of every case
/// is exactly what it was before the family existed)
pub fn sdd_lines(rng: &mut Rng, maxvars: usize, maxops: usize) -> Vec<String> {
    let mut probe = rng.clone();
    let mut out = vec![sdd_line(rng, maxvars, maxops)];
    if maxvars >= 6 && probe.chance(1, 10) {
        let (ops, vt) = wide_program(&mut probe);
        out.push(sdd_report(6, &vt, true, 0, &ops));
    }
    out
}

pub fn sdd_line(rng: &mut Rng, maxvars: usize, maxops: usize) -> String {
    let n = rng.range(2, maxvars as u64) as usize;
    let nops = rng.range(6, maxops as u64) as usize;
    let prog = gen_program_x(rng, n, nops, false, true);
    let vt = gen_vtree(rng, n);
    let compress = rng.chance(3, 4);
    let tbl = [0usize, 4, 8][rng.below(3) as usize];
    // without compression diagrams (and the implementation's structural comparisons of element
    // vectors) grow quickly: keep those programs short (operands only refer backwards)
    let mut prog = prog;
    // (one uncompressed program in four is allowed 40 operations; the per-case watchdog bounds
    // what that costs)
    let cap = if rng.chance(1, 4) { 40 } else { 24 };
    if !compress && prog.ops.len() > cap {
        prog.ops.truncate(cap);
    }
    // uncompressed stress (half of the uncompressed programs): a left-linear vtree, and products
    // of the most recent results appended — without compression, conditioning and quantification
    // leave nodes whose primes overlap, and products of such nodes are the only way to reach
    // decision nodes with dozens of elements at these variable counts
    let mut vt = vt;
    if !compress && rng.chance(1, 2) {
        let mut labels: Vec<usize> = (0..n).collect();
        rng.shuffle(&mut labels);
        vt = left_linear(&labels);
        let base = prog.ops.len();
        if base >= 4 && n >= 4 {
            // condition / quantify three earlier results on the variables deepest on the LEFT of
            // the vtree (without compression the primes of the results coincide or overlap) …
            let mut conds: Vec<usize> = Vec::new();
            for k in 0..3 {
                let src = base - 1 - rng.below(std::cmp::min(base, 10) as u64) as usize;
                let v = labels[k % 2];
                prog.ops.push(if rng.coin() { Op::Cond(src, v, rng.coin()) } else { Op::Exist(src, v) });
                conds.push(prog.ops.len() - 1);
            }
            // … and multiply them up in a chain: element counts compound
            let mut acc = conds[0];
            for k in 0..7 {
                let other = if k < 2 { conds[k + 1] } else { prog.ops.len() - 1 - rng.below(4) as usize };
                prog.ops.push(if rng.chance(2, 3) { Op::And(acc, other) } else { Op::Or(acc, other) });
                acc = prog.ops.len() - 1;
            }
        }
    }
    sdd_report(n, &vt, compress, tbl, &prog.ops)
}

fn sdd_report(n: usize, vt: &VT, compress: bool, tbl: usize, ops_: &[Op]) -> String {
    struct P<'x> {
        ops: &'x [Op],
    }
    let prog = P { ops: ops_ };
    let head = format!(
        "sdd n={} vtree={} compress={} tbl={} ops={}",
        n,
        vt.print(),
        compress as u8,
        tbl,
        prog.ops.iter().map(|o| o.print()).collect::<Vec<_>>().join("|")
    );
    if std::env::var("HARNESS_DEBUG").is_ok() {
        eprintln!("{}", head);
    }
    let r = guarded(|| {
        rsdd::verif_hooks::set_table_capacity(if tbl == 0 { None } else { Some(tbl) });
        let mut b = CompressionSddBuilder::new(vt.to_vtree());
        b.set_compression(compress);
        let b = b;
        let pool = exec_sdd(&b, &prog.ops);
        let printed: Vec<String> = pool.iter().map(|p| sdd_canon(*p, false)).collect();
        let cls: Vec<usize> = (0..pool.len())
            .map(|i| (0..=i).find(|&j| b.eq(pool[j], pool[i])).unwrap())
            .collect();
        let flags: Vec<String> = pool
            .iter()
            .map(|p| format!("{}{}", p.is_compressed() as u8, p.is_trimmed() as u8))
            .collect();
        let raw: Vec<String> = pool.iter().map(|p| sdd_raw(*p)).collect();
        format!(
            "res={} eq={} ct={} numvars={} raw={}",
            printed.join("|"), csv(&cls), flags.join(","), b.num_vars(), raw.join("|")
        )
    });
    format!("{} => {}", head, r.unwrap_or_else(|e| e))
}
