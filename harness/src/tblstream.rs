//! `tbl` stream (C02, unique table) and `lru` stream (C16), driven directly
use crate::common::*;
use crate::rng::Rng;
use rsdd::util::lru::Lru;
use rsdd::verif_hooks::BackedRobinhoodTable;
use std::collections::HashMap;

#[derive(Clone, Debug, PartialEq, Eq)]
pub struct Key {
    pub id: u64,
    pub h: u64,
}

impl std::hash::Hash for Key {
    fn hash<H: std::hash::Hasher>(&self, state: &mut H) {
        state.write_u64(self.h)
    }
}

/// adversarial hash generator for a table that starts with `cap` slots
fn gen_hash(rng: &mut Rng, cap: u64, recent: &[u64]) -> u64 {
    match rng.below(8) {
        0 => rng.below(4),                                  // crowd the first slots
        1 => cap - 1 - rng.below(2).min(cap - 1),           // wrap around the end
        2 => rng.below(4) * cap + rng.below(2),             // equal modulo the capacity
        3 if !recent.is_empty() => *rng.pick(recent),       // equal hash, different key
        4 if !recent.is_empty() => rng.pick(recent) + 1,    // adjacent home
        5 => rng.below(4 * cap),
        _ => rng.next() % 1024,
    }
}

pub fn tbl_line(rng: &mut Rng, maxops: usize) -> String {
    let cap: usize = [1usize, 2, 4, 4, 8, 16][rng.below(6) as usize];
    let nops = rng.range(3, maxops as u64) as usize;
    // (hash, key id); key ids repeat to exercise hits
    let mut ops: Vec<(u64, u64)> = Vec::new();
    let mut key_hash: Vec<u64> = Vec::new();
    for _ in 0..nops {
        if !key_hash.is_empty() && rng.chance(1, 4) {
            let k = rng.below(key_hash.len() as u64);
            ops.push((key_hash[k as usize], k));
        } else {
            let h = gen_hash(rng, cap as u64, &key_hash);
            key_hash.push(h);
            ops.push((h, key_hash.len() as u64 - 1));
        }
    }
    let head = format!(
        "tbl cap={} ops={}",
        cap,
        ops.iter().map(|(h, k)| format!("{}:{}", h, k)).collect::<Vec<_>>().join(",")
    );
    let r = guarded(|| {
        let mut tbl: BackedRobinhoodTable<Key> = BackedRobinhoodTable::verif_with_capacity(cap);
        let tp: *mut BackedRobinhoodTable<Key> = &mut tbl;
        let mut arena: HashMap<*const Key, usize> = HashMap::new();
        let mut res = Vec::new();
        let mut dumps = Vec::new();
        for (h, k) in ops.iter() {
            let before = unsafe { (*tp).num_nodes() };
            let p: &Key = unsafe { (*tp).get_or_insert_by_hash(*h, Key { id: *k, h: *h }, false) };
            let after = unsafe { (*tp).num_nodes() };
            let n = arena.len();
            let idx = *arena.entry(p as *const Key).or_insert(n);
            res.push(format!("{}{}", idx, if after == before { "h" } else { "n" }));
            let (c, len, slots) = unsafe { (*tp).verif_dump() };
            let s: Vec<String> = slots
                .iter()
                .map(|(e, hash, psl)| match e {
                    None => "_".to_string(),
                    Some(k) => format!("{}.{}.{}", arena[&(*k as *const Key)], hash, psl),
                })
                .collect();
            dumps.push(format!("{}/{}/{}", c, len, s.join(",")));
        }
        format!("res={} dumps={}", res.join(","), dumps.join(";"))
    });
    format!("{} => {}", head, r.unwrap_or_else(|e| e))
}

pub fn lru_line(rng: &mut Rng, maxops: usize) -> String {
    let cap = rng.below(4) as usize;
    let nops = rng.range(3, maxops as u64) as usize;
    // hash is a function of the key: h(k) = (k * mult + add) % modulus
    let mult = [1u64, 3, 8, 0][rng.below(4) as usize];
    let modulus = [4u64, 16, 64, 1 << 20][rng.below(4) as usize];
    let hash_of = |k: u64| (k.wrapping_mul(mult).wrapping_add(k / 7)) % modulus;
    let nkeys = rng.range(2, 12);
    #[derive(Clone)]
    enum O {
        Ins(u64, u64),
        Get(u64),
    }
    let mut ops = Vec::new();
    for i in 0..nops {
        let k = rng.below(nkeys);
        if rng.chance(3, 5) {
            ops.push(O::Ins(k, 100 + i as u64));
        } else {
            ops.push(O::Get(k));
        }
    }
    let head = format!(
        "lru cap={} ops={}",
        cap,
        ops.iter()
            .map(|o| match o {
                O::Ins(k, v) => format!("i{}:{}:{}", k, v, hash_of(*k)),
                O::Get(k) => format!("g{}:{}", k, hash_of(*k)),
            })
            .collect::<Vec<_>>()
            .join(",")
    );
    let r = guarded(|| {
        let mut lru: Lru<u64, u64> = Lru::new(cap);
        let mut res = Vec::new();
        for o in ops.iter() {
            match o {
                O::Ins(k, v) => {
                    lru.insert(*k, *v, hash_of(*k));
                    res.push("-".to_string());
                }
                O::Get(k) => res.push(match lru.get(*k, hash_of(*k)) {
                    None => "n".to_string(),
                    Some(v) => v.to_string(),
                }),
            }
        }
        let (c, nf, slots) = lru.verif_dump();
        let s: Vec<String> = slots
            .iter()
            .map(|e| match e {
                None => "_".to_string(),
                Some((k, v, h)) => format!("{}.{}.{}", k, v, h),
            })
            .collect();
        format!("res={} dump={}/{}/{}", res.join(","), c, nf, s.join(","))
    });
    format!("{} => {}", head, r.unwrap_or_else(|e| e))
}
