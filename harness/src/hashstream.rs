//! `hash` stream (C11): the semantic hash of one function across representations (BDD orders,
//! SDD vtrees, top-down decision-DNNF), negation, cached vs recomputed, and the semantic-hash
//! SDD builder
use crate::bddgen::*;
use crate::cnfgen::*;
use crate::common::*;
use crate::rng::Rng;
use crate::sddstream::{exec_sdd, gen_vtree, sdd_canon, VT};
use rsdd::builder::bdd::{BddBuilder, RobddBuilder};
use rsdd::builder::cache::AllIteTable;
use rsdd::builder::decision_nnf::{DecisionNNFBuilder, SemanticDecisionNNFBuilder, StandardDecisionNNFBuilder};
use rsdd::builder::sdd::{CompressionSddBuilder, SddBuilder, SemanticSddBuilder};
use rsdd::builder::BottomUpBuilder;
use rsdd::constants::primes;
use rsdd::repr::{create_semantic_hash_map, BddPtr, DDNNFPtr, SddPtr, VarLabel};

fn sdd_tt(p: SddPtr, n: usize) -> String {
    (0..(1usize << n))
        .map(|a| {
            let inst: Vec<bool> = (0..n).map(|x| (a >> x) & 1 == 1).collect();
            if p.evaluate(&inst) { '1' } else { '0' }
        })
        .collect()
}

fn exec_sem<'a, const P: u128>(b: &'a SemanticSddBuilder<'a, P>, ops: &[Op]) -> Vec<SddPtr<'a>> {
    let mut pool: Vec<SddPtr<'a>> = Vec::new();
    for op in ops {
        let r = match op {
            Op::Const(v) => if *v { b.true_ptr() } else { b.false_ptr() },
            Op::Var(x, p) => b.var(VarLabel::new_usize(*x), *p),
            Op::Neg(i) => b.negate(pool[*i]),
            Op::And(i, j) => b.and(pool[*i], pool[*j]),
            Op::Or(i, j) => b.or(pool[*i], pool[*j]),
            Op::Cond(i, x, v) => b.condition(pool[*i], VarLabel::new_usize(*x), *v),
            Op::Exist(i, x) => b.exists(pool[*i], VarLabel::new_usize(*x)),
            _ => panic!("operation not available on the semantic SDD builder"),
        };
        pool.push(r);
        // the statistics accessor is a query: calling it in the middle of a history must not
        // change any later result, hash or equality
        if pool.len() % 3 == 2 {
            let _ = b.stats();
        }
    }
    pool
}

fn hash_report<const P: u128>(rng: &mut Rng, n: usize, prog: &Program, order2: &[usize], vt_fixed: Option<VT>) -> String {
    let map = create_semantic_hash_map::<P>(n);
    let ws: Vec<String> = (0..n)
        .map(|i| {
            let (l, h) = map.var_weight(VarLabel::new_usize(i));
            format!("{}:{}", l.value(), h.value())
        })
        .collect();
    rsdd::verif_hooks::set_table_capacity(Some(8));
    let b1 = RobddBuilder::<AllIteTable<BddPtr>>::new(mk_order(&prog.order));
    let p1 = exec(&b1, &prog.ops);
    let b2 = RobddBuilder::<AllIteTable<BddPtr>>::new(mk_order(order2));
    let p2 = exec(&b2, &prog.ops);
    let vt1 = match vt_fixed {
        Some(v) => v,
        None => gen_vtree(rng, n),
    };
    let vt2 = gen_vtree(rng, n);
    let s1 = CompressionSddBuilder::new(vt1.to_vtree());
    let q1 = exec_sdd(&s1, &prog.ops);
    let mut s2m = CompressionSddBuilder::new(vt2.to_vtree());
    s2m.set_compression(false);
    let s2 = s2m;
    let q2 = exec_sdd(&s2, &prog.ops);
    // the compression flag of the hash-identified builder is part of its public configuration
    // (every second program sets it; no random draw, so later cases are as before)
    let mut sem_m = SemanticSddBuilder::<P>::new(vt1.to_vtree());
    if prog.ops.len() % 2 == 0 {
        sem_m.set_compression(true);
    }
    let sem = sem_m;
    let qs = exec_sem(&sem, &prog.ops);
    let k = prog.ops.len();
    let picks: Vec<usize> = (k.saturating_sub(4)..k).collect();
    let f = |v: Vec<u128>| v.iter().map(|x| x.to_string()).collect::<Vec<_>>().join(",");
    let hb1: Vec<u128> = picks.iter().map(|&i| p1[i].semantic_hash(&map).value()).collect();
    let hb2: Vec<u128> = picks.iter().map(|&i| p2[i].semantic_hash(&map).value()).collect();
    let hs1: Vec<u128> = picks.iter().map(|&i| q1[i].semantic_hash(&map).value()).collect();
    let hs2: Vec<u128> = picks.iter().map(|&i| q2[i].semantic_hash(&map).value()).collect();
    let hneg: Vec<u128> = picks.iter().map(|&i| p1[i].neg().semantic_hash(&map).value()).collect();
    let hsneg: Vec<u128> = picks.iter().map(|&i| q1[i].neg().semantic_hash(&map).value()).collect();
    // cached twice (the second call reads the per-node cache), then recomputed
    let cb: Vec<u128> = picks
        .iter()
        .map(|&i| {
            let _ = p1[i].cached_semantic_hash(b1.order(), &map);
            p1[i].cached_semantic_hash(b1.order(), &map).value()
        })
        .collect();
    // cached and recomputed hash of the SMOOTHED diagram (same function, nodes with equal
    // children) and of the diagram obtained by conditioning (shares nodes with its argument)
    let csm: Vec<u128> = picks
        .iter()
        .map(|&i| {
            let sm = b1.smooth(p1[i], n);
            let _ = sm.cached_semantic_hash(b1.order(), &map);
            sm.cached_semantic_hash(b1.order(), &map).value()
        })
        .collect();
    let hsm: Vec<u128> = picks.iter().map(|&i| b1.smooth(p1[i], n).semantic_hash(&map).value()).collect();
    let csmneg: Vec<u128> = picks.iter().map(|&i| b1.smooth(p1[i], n).neg().cached_semantic_hash(b1.order(), &map).value()).collect();
    let cs: Vec<u128> = picks
        .iter()
        .map(|&i| {
            let _ = q1[i].cached_semantic_hash(s1.vtree_manager(), &map);
            q1[i].cached_semantic_hash(s1.vtree_manager(), &map).value()
        })
        .collect();
    let sem_tt: Vec<String> = qs.iter().map(|p| sdd_tt(*p, n)).collect();
    let sem_eq: Vec<usize> = (0..qs.len()).map(|i| (0..=i).find(|&j| sem.eq(qs[j], qs[i])).unwrap()).collect();
    let sem_h: Vec<u128> = picks.iter().map(|&i| sem.cached_semantic_hash(qs[i]).value()).collect();
    let _ = sdd_canon(q1[0], false);
    format!(
        "P={} vt1={} vt2={} w={} picks={} hb1={} hb2={} hs1={} hs2={} hneg={} hsneg={} cb={} cs={} csm={} hsm={} csmneg={} semtt={} semeq={} semh={}",
        P, vt1.print(), vt2.print(), ws.join(","), csv(&picks),
        f(hb1), f(hb2), f(hs1), f(hs2), f(hneg), f(hsneg), f(cb), f(cs), f(csm), f(hsm), f(csmneg),
        sem_tt.join("|"), csv(&sem_eq), f(sem_h)
    )
}

fn td_report<const P: u128>(rng: &mut Rng, maxvars: usize) -> (String, String) {
    // the same CNF families as the `td` stream (parity constraints and guarded multiplexers make
    // the hash-identified store answer from its table)
    let (raw0, _) = crate::tdstream::gen_td_raw(rng, maxvars);
    let raw: RawCnf = raw0.into_iter().filter(|c| !c.is_empty()).collect();
    let cnf = to_cnf(&raw);
    let n = std::cmp::max(1, cnf.num_vars());
    let o1 = rng.perm(n);
    let o2 = if rng.chance(1, 3) { (0..n).collect() } else { rng.perm(n) };
    let head = format!("hash kind=td n={} cnf={} o1={} o2={}", n, print_cnf(&cnf), csv(&o1), csv(&o2));
    let r = guarded(|| {
        let map = create_semantic_hash_map::<P>(n);
        let ws: Vec<String> = (0..n)
            .map(|i| {
                let (l, h) = map.var_weight(VarLabel::new_usize(i));
                format!("{}:{}", l.value(), h.value())
            })
            .collect();
        let b = RobddBuilder::<AllIteTable<BddPtr>>::new(mk_order(&o1));
        let d = b.compile_cnf(&cnf);
        let t = StandardDecisionNNFBuilder::new(mk_order(&o2));
        let td = t.compile_cnf_topdown(&cnf);
        // the store that identifies nodes by semantic hash, same order: its result, the result's
        // truth table, and a second compilation of the negated... (same CNF) on the same builder
        let st = SemanticDecisionNNFBuilder::<P>::new(mk_order(&o2));
        let sd = st.compile_cnf_topdown(&cnf);
        let sd2 = st.compile_cnf_topdown(&cnf);
        let tt = |p: BddPtr| -> String {
            (0..(1usize << n)).map(|a| { let inst: Vec<bool> = (0..n).map(|x| (a >> x) & 1 == 1).collect(); if p.evaluate(&inst) { '1' } else { '0' } }).collect()
        };
        // conditioning of the hash-identified store's result (and of its negation) on every literal
        let mut sconds: Vec<String> = Vec::new();
        for v in 0..n {
            for val in [false, true] {
                sconds.push(format!(
                    "{}.{}",
                    tt(rsdd::builder::TopDownBuilder::condition(&st, sd, VarLabel::new_usize(v), val)),
                    tt(rsdd::builder::TopDownBuilder::condition(&st, sd.neg(), VarLabel::new_usize(v), val))
                ));
            }
        }
        format!(
            "P={} w={} hb={} ht={} hsem={} stt={} stt2={} sconds={}",
            P,
            ws.join(","),
            d.semantic_hash(&map).value(),
            td.semantic_hash(&map).value(),
            sd.semantic_hash(&map).value(),
            tt(sd),
            tt(sd2),
            sconds.join(",")
        )
    });
    (head, r.unwrap_or_else(|e| e))
}

pub fn hash_lines(rng: &mut Rng, idx: u64, maxvars: usize, maxops: usize) -> Vec<String> {
    let mut out = Vec::new();
    if idx % 3 == 2 {
        let (h, r) = match rng.below(3) {
            0 => td_report::<{ primes::U32_SMALL }>(rng, maxvars),
            1 => td_report::<{ primes::U32_TINY }>(rng, maxvars),
            _ => td_report::<{ primes::U64_LARGEST }>(rng, maxvars),
        };
        out.push(format!("{} => {}", h, r));
        return out;
    }
    let n = if maxvars >= 5 && rng.chance(1, 3) { rng.range(5, maxvars as u64) as usize } else { rng.range(2, maxvars as u64) as usize };
    let nops = rng.range(6, maxops as u64) as usize;
    let mut prog = gen_program_x(rng, n, nops, false, true);
    // only operations every builder involved has (the semantic SDD builder has no ite)
    for op in prog.ops.iter_mut() {
        match op {
            Op::Xor(i, j) | Op::Iff(i, j) => *op = Op::And(*i, *j),
            Op::Ite(i, j, _) => *op = Op::Or(*i, *j),
            Op::Compose(i, x, _) => *op = Op::Exist(*i, *x),
            _ => {}
        }
    }
    // directed family (one program in six, five or more variables): a conjunction whose
    // uncompressed product has three elements and denotes `la & lc`, conditioned on `lc` (leaves
    // an untrimmed node that denotes the literal `la`), used under a top variable, next to the
    // same function assembled by resolution from trimmed pieces — on the vtree (t ((a b)(c d))).
    // Exercises the complement lookups of the semantic-hash node tables.
    let mut vt_fixed: Option<VT> = None;
    if n >= 5 && rng.chance(1, 3) {
        let roles = rng.perm(n);
        let (t, a, b, c, d) = (roles[0], roles[1], roles[2], roles[3], roles[4]);
        let flip: Vec<bool> = (0..n).map(|_| rng.coin()).collect();
        let leaf = |x: usize| Box::new(VT::Leaf(x));
        let mut core = VT::Node(
            Box::new(VT::Node(leaf(a), leaf(b))),
            Box::new(VT::Node(leaf(c), leaf(d))),
        );
        // further variables hang to the right of the core
        for &x in roles.iter().skip(5) {
            core = VT::Node(Box::new(core), leaf(x));
        }
        vt_fixed = Some(VT::Node(leaf(t), Box::new(core)));
        let ops = &mut prog.ops;
        let mut push = |ops: &mut Vec<Op>, o: Op| {
            ops.push(o);
            ops.len() - 1
        };
        let lit = |x: usize, pos: bool| Op::Var(x, pos != flip[x]);
        let na = push(ops, lit(a, false));
        let pa = push(ops, lit(a, true));
        let pb = push(ops, lit(b, true));
        let nb = push(ops, lit(b, false));
        let pc = push(ops, lit(c, true));
        let nc = push(ops, lit(c, false));
        let pd = push(ops, lit(d, true));
        let nd = push(ops, lit(d, false));
        let pt = push(ops, lit(t, true));
        let c_or_d = push(ops, Op::Or(pc, pd));
        let aa = push(ops, Op::And(na, c_or_d));
        let c_or_nd = push(ops, Op::Or(pc, nd));
        let na_b = push(ops, Op::And(na, pb));
        let b1 = push(ops, Op::And(na_b, c_or_nd));
        let a_or_nb = push(ops, Op::Or(pa, nb));
        let b2 = push(ops, Op::And(a_or_nb, pc));
        let bb = push(ops, Op::Or(b1, b2));
        let g = push(ops, Op::And(aa, bb));
        let m = push(ops, Op::Cond(g, c, !flip[c]));
        let _nn = push(ops, Op::And(pt, m));
        let na_or_c = push(ops, Op::Or(na, pc));
        let na_or_nc = push(ops, Op::Or(na, nc));
        let u = push(ops, Op::And(pt, na_or_c));
        let w = push(ops, Op::And(pt, na_or_nc));
        let _r = push(ops, Op::And(u, w));
    }
    let order2 = rng.perm(n);
    let head = format!(
        "hash kind=prog n={} order1={} order2={} ops={}",
        n,
        csv(&prog.order),
        csv(&order2),
        prog.ops.iter().map(|o| o.print()).collect::<Vec<_>>().join("|")
    );
    let pick = rng.below(3);
    let r = guarded(|| match pick {
        0 => hash_report::<{ primes::U32_SMALL }>(rng, n, &prog, &order2, vt_fixed.clone()),
        1 => hash_report::<{ primes::U32_TINY }>(rng, n, &prog, &order2, vt_fixed.clone()),
        _ => hash_report::<{ primes::U64_LARGEST }>(rng, n, &prog, &order2, vt_fixed.clone()),
    });
    out.push(format!("{} => {}", head, r.unwrap_or_else(|e| e)));
    out
}

/// debugging aid: re-run the program of a stored `hash kind=prog` line on the semantic-hash SDD
/// builder of the current tree and print, per pool entry, its truth table, its cached hash and
/// the first entry the builder judges equal
pub fn probe(line: &str) {
    let head = line.split(" => ").next().unwrap();
    let rest = line.split(" => ").nth(1).unwrap_or("");
    let get = |src: &str, k: &str| -> String {
        src.split(' ').find_map(|t| t.strip_prefix(&format!("{}=", k)).map(|x| x.to_string())).unwrap_or_default()
    };
    let n: usize = get(head, "n").parse().unwrap();
    let ops = parse_ops(&get(head, "ops"));
    let p: u128 = get(rest, "P").parse().unwrap();
    let vt = parse_vt(&get(rest, "vt1"));
    fn run<const P: u128>(n: usize, vt: &VT, ops: &[Op]) {
        let sem = SemanticSddBuilder::<P>::new(vt.to_vtree());
        let qs = exec_sem(&sem, ops);
        for (i, q) in qs.iter().enumerate() {
            let first = (0..=i).find(|&j| sem.eq(qs[j], *q)).unwrap();
            println!("#{} tt={} hash={} eqfirst={} ptr={:?}", i, sdd_tt(*q, n), sem.cached_semantic_hash(*q).value(), first, q);
        }
    }
    if p == primes::U32_SMALL {
        run::<{ primes::U32_SMALL }>(n, &vt, &ops)
    } else if p == primes::U32_TINY {
        run::<{ primes::U32_TINY }>(n, &vt, &ops)
    } else {
        run::<{ primes::U64_LARGEST }>(n, &vt, &ops)
    }
}

fn parse_vt(s: &str) -> VT {
    fn go(c: &[u8], i: &mut usize) -> VT {
        if c[*i] == b'(' {
            *i += 1;
            let l = go(c, i);
            *i += 1; // ','
            let r = go(c, i);
            *i += 1; // ')'
            VT::Node(Box::new(l), Box::new(r))
        } else {
            let st = *i;
            while *i < c.len() && c[*i].is_ascii_digit() {
                *i += 1;
            }
            VT::Leaf(std::str::from_utf8(&c[st..*i]).unwrap().parse().unwrap())
        }
    }
    let mut i = 0;
    go(s.as_bytes(), &mut i)
}
