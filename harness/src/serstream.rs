//! `ser` stream (C17): DIMACS / s-expression parsing and the JSON serialisers
use crate::bddgen::*;
use crate::cnfgen::*;
use crate::common::*;
use crate::rng::Rng;
use crate::sddstream::{exec_sdd, gen_vtree, sdd_canon};
use rsdd::builder::bdd::RobddBuilder;
use rsdd::builder::cache::AllIteTable;
use rsdd::builder::sdd::CompressionSddBuilder;
use rsdd::repr::{BddPtr, Cnf, DDNNFPtr, LogicalExpr, SddPtr, VarLabel};
use rsdd::serialize::{BDDSerializer, LogicalSExpr, SDDSerializer, VTreeSerializer};
use std::collections::HashMap;

fn esc(s: &str) -> String {
    s.replace('\n', "\\n").replace(' ', "\\s")
}

fn gen_sexpr(rng: &mut Rng, names: &[&str], depth: usize) -> String {
    if depth == 0 || rng.chance(1, 4) {
        return format!("(Var {})", rng.pick(names));
    }
    match rng.below(6) {
        0 => format!("(Not {})", gen_sexpr(rng, names, depth - 1)),
        1 => format!("(And {} {})", gen_sexpr(rng, names, depth - 1), gen_sexpr(rng, names, depth - 1)),
        2 => format!("(Or {} {})", gen_sexpr(rng, names, depth - 1), gen_sexpr(rng, names, depth - 1)),
        3 => format!("(Iff {} {})", gen_sexpr(rng, names, depth - 1), gen_sexpr(rng, names, depth - 1)),
        4 => format!("(Xor {} {})", gen_sexpr(rng, names, depth - 1), gen_sexpr(rng, names, depth - 1)),
        _ => format!(
            "(Ite {} {} {})",
            gen_sexpr(rng, names, depth - 1),
            gen_sexpr(rng, names, depth - 1),
            gen_sexpr(rng, names, depth - 1)
        ),
    }
}

fn expr_tt(e: &LogicalExpr, n: usize, shift: usize) -> String {
    (0..(1usize << n))
        .map(|a| {
            let mut m = HashMap::new();
            for x in 0..n {
                m.insert(VarLabel::new_usize(x + shift), (a >> x) & 1 == 1);
            }
            if e.eval(&m) { '1' } else { '0' }
        })
        .collect()
}

fn dimacs_line(text: &str, nv: usize) -> String {
    let text = text.to_string();
            let head = format!("ser kind=dimacs text={}", esc(&text));
            let r = guarded(|| {
                let cnf = Cnf::from_dimacs(&text);
                let printed = cnf.to_dimacs();
                let again = Cnf::from_dimacs(&format!("p cnf {} {}{}", std::cmp::max(1, cnf.num_vars()), cnf.clauses().len(), printed));
                let le = guarded(|| {
                    let e = LogicalExpr::from_dimacs(&text);
                    expr_tt(&e, nv, 1)
                })
                .unwrap_or_else(|e| e);
                format!(
                    "cnf={} nv={} printed={} again={} same={} lett={}",
                    print_cnf(&cnf),
                    cnf.num_vars(),
                    esc(&printed),
                    print_cnf(&again),
                    (again == cnf) as u8,
                    le
                )
            });
            format!("{} => {}", head, r.unwrap_or_else(|e| e))
}

pub fn ser_lines(rng: &mut Rng, idx: u64, maxvars: usize, maxops: usize) -> Vec<String> {
    let mut out = Vec::new();
    match idx % 4 {
        0 if idx % 8 == 4 => {
            // to_dimacs of CNFs that did not come from a text: the formula without clauses,
            // CNFs with empty clauses, CNFs after a few conditionings
            let mut raw = if rng.chance(1, 3) { Vec::new() } else { gen_cnf(rng, maxvars, maxvars + 2, true) };
            if rng.chance(1, 4) {
                raw.push(Vec::new());
            }
            let nconds = rng.below(4) as usize;
            let lits: Vec<(usize, bool)> = (0..nconds).map(|_| (rng.below(maxvars as u64) as usize, rng.coin())).collect();
            let head = format!(
                "ser kind=todimacs raw={} conds={}",
                print_raw(&raw),
                lits.iter().map(|(v, p)| format!("{}{}", if *p { "p" } else { "n" }, v)).collect::<Vec<_>>().join(".")
            );
            let r = guarded(|| {
                let mut cnf = to_cnf(&raw);
                for (v, p) in lits.iter() {
                    if *v < cnf.num_vars() {
                        cnf = cnf.condition(rsdd::repr::Literal::new(VarLabel::new_usize(*v), *p));
                    }
                }
                format!("cnf={} printed={}", print_cnf(&cnf), esc(&cnf.to_dimacs()))
            });
            out.push(format!("{} => {}", head, r.unwrap_or_else(|e| e)));
        }
        0 => {
            // DIMACS text: header, comments, clauses possibly spanning lines
            // the `dimacs` crate rejects headers announcing zero variables or zero clauses:
            // the stream stays inside the texts that parser accepts
            let mut raw = gen_cnf(rng, maxvars, 2 * maxvars, true);
            if raw.is_empty() {
                raw.push(vec![(0, rng.coin())]);
            }
            // one text in five uses variable numbers with two digits (9 … 14: numbers ending in the
            // digit 0 included), the lower numbers staying unused
            if rng.chance(1, 5) {
                for c in raw.iter_mut() {
                    for l in c.iter_mut() {
                        l.0 += 8;
                    }
                }
            }
            let nv = std::cmp::max(1, raw.iter().flat_map(|c| c.iter().map(|(v, _)| v + 1)).max().unwrap_or(0));
            let mut text = String::new();
            if rng.coin() {
                text.push_str("c generated\n");
            }
            text.push_str(&format!("p cnf {} {}\n", nv, raw.len()));
            for c in raw.iter() {
                for (v, p) in c.iter() {
                    text.push_str(&format!("{}{}", if *p { "" } else { "-" }, v + 1));
                    text.push(if rng.chance(1, 6) { '\n' } else { ' ' });
                }
                text.push_str("0\n");
            }
            out.push(dimacs_line(&text, nv));
            // ADDITIONAL line (drawn after everything else of the case, so the ordinary line is
            // what it always was): the same clauses with comment lines BETWEEN clauses, whose
            // bodies contain what a careless pre-processing step could trip over (`%`, numbers,
            // a zero, a second problem line)
            let bodies = ["c % end of first block", "c 1 -2 0", "c p cnf 3 3", "c 100% sure 0", "c -1 % 2 0 %", "c %"];
            let mut text2 = String::new();
            text2.push_str(&format!("p cnf {} {}\n", nv, raw.len()));
            let mut inserted = 0;
            for (i, c) in raw.iter().enumerate() {
                if rng.chance(1, 2) || (i + 1 == raw.len() && inserted == 0 && i > 0) {
                    text2.push_str(bodies[rng.below(bodies.len() as u64) as usize]);
                    text2.push('\n');
                    inserted += 1;
                }
                for (v, p) in c.iter() {
                    text2.push_str(&format!("{}{} ", if *p { "" } else { "-" }, v + 1));
                }
                text2.push_str("0\n");
            }
            out.push(dimacs_line(&text2, nv));
        }
        1 => {
            let pool = ["a", "b", "c", "x1", "x10", "x2", "B", "Z", "zeta", "_k"];
            let k = rng.range(1, std::cmp::min(maxvars, pool.len()) as u64) as usize;
            let mut names: Vec<&str> = pool.to_vec();
            rng.shuffle(&mut names);
            names.truncate(k);
            let text = gen_sexpr(rng, &names, 4);
            let head = format!("ser kind=sexpr text={}", esc(&text));
            let r = guarded(|| {
                let sx = serde_sexpr::from_str::<LogicalSExpr>(&text).unwrap();
                let mapping = sx.variable_mapping();
                let mut mv: Vec<(usize, String)> = mapping.iter().map(|(k, v)| (*v, (*k).clone())).collect();
                mv.sort();
                let n = mv.len();
                let e = LogicalExpr::from_sexpr(&sx);
                format!(
                    "map={} tt={}",
                    mv.iter().map(|(i, s)| format!("{}:{}", i, s)).collect::<Vec<_>>().join(","),
                    expr_tt(&e, n, 0)
                )
            });
            out.push(format!("{} => {}", head, r.unwrap_or_else(|e| e)));
        }
        2 if idx % 12 == 2 => {
            // BDD JSON of diagrams built by the top-down compilers (decision-DNNF stores keep
            // nodes that are NOT in the ROBDD normal form, e.g. a false high edge)
            let (raw, _) = crate::tdstream::gen_td_raw(rng, maxvars.min(6));
            let cnf = to_cnf(&raw);
            let n = cnf.num_vars();
            let order = if rng.coin() { (0..n).collect::<Vec<_>>() } else { rng.perm(n) };
            let sem = rng.coin();
            let vo = mk_order(&order);
            let r = guarded(|| {
                use rsdd::builder::decision_nnf::{DecisionNNFBuilder, SemanticDecisionNNFBuilder, StandardDecisionNNFBuilder};
                rsdd::verif_hooks::set_table_capacity(Some(8));
                let mut lines = Vec::new();
                let mut emit = |d: BddPtr| {
                    for d in [d, d.neg()] {
                        let head = format!("ser kind=bdd n={} d={}", n, bdd_raw_string(d));
                        let r = guarded(|| {
                            let js = serde_json::to_string(&BDDSerializer::from_bdd(d)).unwrap();
                            format!("json={}", esc(&js))
                        });
                        lines.push(format!("{} => {}", head, r.unwrap_or_else(|e| e)));
                    }
                };
                if sem {
                    let b = SemanticDecisionNNFBuilder::<{ rsdd::constants::primes::U64_LARGEST }>::new(vo);
                    let d = b.compile_cnf_topdown(&cnf);
                    emit(d);
                } else {
                    let b = StandardDecisionNNFBuilder::new(vo);
                    let d = b.compile_cnf_topdown(&cnf);
                    emit(d);
                }
                lines
            });
            match r {
                Ok(ls) => out.extend(ls),
                Err(e) => out.push(format!("ser kind=bdd n={} d=T => {}", n, e)),
            }
        }
        2 => {
            // BDD JSON
            let n = rng.range(1, maxvars as u64) as usize;
            let nops = rng.range(4, maxops as u64) as usize;
            let prog = gen_program(rng, n, nops, false);
            rsdd::verif_hooks::set_table_capacity(Some(8));
            let b = RobddBuilder::<AllIteTable<BddPtr>>::new(mk_order(&prog.order));
            if let Ok(pool) = guarded(|| exec(&b, &prog.ops)) {
                let mut by_size: Vec<(usize, usize)> =
                    pool.iter().enumerate().map(|(i, p)| (bdd_raw_string(*p).len(), i)).collect();
                by_size.sort_by(|a, b| b.cmp(a));
                let mut picks = vec![by_size[0].1, rng.below(pool.len() as u64) as usize];
                picks.dedup();
                for i in picks {
                    let d = pool[i];
                    let head = format!("ser kind=bdd n={} d={}", n, bdd_raw_string(d));
                    let r = guarded(|| {
                        let js = serde_json::to_string(&BDDSerializer::from_bdd(d)).unwrap();
                        format!("json={}", esc(&js))
                    });
                    out.push(format!("{} => {}", head, r.unwrap_or_else(|e| e)));
                }
            }
        }
        _ => {
            // SDD + vtree JSON
            let n = rng.range(2, maxvars as u64) as usize;
            let nops = rng.range(4, maxops as u64) as usize;
            let prog = gen_program_x(rng, n, nops, false, true);
            let vt = gen_vtree(rng, n);
            let b = CompressionSddBuilder::new(vt.to_vtree());
            if let Ok(pool) = guarded(|| exec_sdd(&b, &prog.ops)) {
                let mut by_size: Vec<(usize, usize)> =
                    pool.iter().enumerate().map(|(i, p)| (sdd_canon(*p, false).len(), i)).collect();
                by_size.sort_by(|a, b| b.cmp(a));
                let d: SddPtr = pool[by_size[0].1];
                let tt: String = (0..(1usize << n))
                    .map(|a| {
                        let inst: Vec<bool> = (0..n).map(|x| (a >> x) & 1 == 1).collect();
                        if d.evaluate(&inst) { '1' } else { '0' }
                    })
                    .collect();
                let head = format!("ser kind=sdd n={} vtree={} d={} tt={}", n, vt.print(), sdd_canon(d, false), tt);
                let r = guarded(|| {
                    let js = serde_json::to_string(&SDDSerializer::from_sdd(d)).unwrap();
                    let vj = serde_json::to_string(&VTreeSerializer::from_vtree(&vt.to_vtree())).unwrap();
                    format!("json={} vjson={}", esc(&js), esc(&vj))
                });
                out.push(format!("{} => {}", head, r.unwrap_or_else(|e| e)));
            }
        }
    }
    out
}
