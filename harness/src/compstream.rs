//! `comp` stream (C05): bottom-up compilation of CNFs, expressions and dtree plans with the BDD
//! builder (any order) and the SDD builder (any vtree, incl. dtree-derived)
use crate::bddgen::mk_order;
use crate::cnfgen::*;
use crate::common::*;
use crate::ordstream::print_vtree;
use crate::rng::Rng;
use crate::sddstream::{gen_vtree, sdd_canon};
use rsdd::builder::bdd::{BddBuilder, RobddBuilder};
use rsdd::builder::cache::AllIteTable;
use rsdd::builder::sdd::{CompressionSddBuilder, SddBuilder};
use rsdd::builder::BottomUpBuilder;
use rsdd::plan::BottomUpPlan;
use rsdd::repr::{BddPtr, DDNNFPtr, DTree, LogicalExpr, PartialModel, SddPtr, VTree, VarLabel, VarOrder};

pub fn gen_expr(rng: &mut Rng, n: usize, depth: usize) -> LogicalExpr {
    if depth == 0 || rng.chance(1, 4) {
        return LogicalExpr::Literal(rng.below(n as u64) as usize, rng.coin());
    }
    let mut sub = |rng: &mut Rng| Box::new(gen_expr(rng, n, depth - 1));
    match rng.below(6) {
        0 => LogicalExpr::Not(sub(rng)),
        1 => LogicalExpr::And(sub(rng), sub(rng)),
        2 => LogicalExpr::Or(sub(rng), sub(rng)),
        3 => LogicalExpr::Iff(sub(rng), sub(rng)),
        4 => LogicalExpr::Xor(sub(rng), sub(rng)),
        _ => LogicalExpr::Ite { guard: sub(rng), thn: sub(rng), els: sub(rng) },
    }
}

pub fn print_expr(e: &LogicalExpr) -> String {
    match e {
        LogicalExpr::Literal(x, p) => format!("L{}{}", x, if *p { 't' } else { 'f' }),
        LogicalExpr::Not(a) => format!("N({})", print_expr(a)),
        LogicalExpr::And(a, b) => format!("A({},{})", print_expr(a), print_expr(b)),
        LogicalExpr::Or(a, b) => format!("O({},{})", print_expr(a), print_expr(b)),
        LogicalExpr::Iff(a, b) => format!("I({},{})", print_expr(a), print_expr(b)),
        LogicalExpr::Xor(a, b) => format!("X({},{})", print_expr(a), print_expr(b)),
        LogicalExpr::Ite { guard, thn, els } => {
            format!("T({},{},{})", print_expr(guard), print_expr(thn), print_expr(els))
        }
    }
}

/// the "twin" of an expression: every `Iff` becomes `Xor` and vice versa, the branches of every
/// `Ite` are exchanged — compiled on the SAME builders right after the expression, so that the
/// applications of the twin meet the cache entries (standard triples, complemented choices)
/// the expression left behind
pub fn twin_expr(e: &LogicalExpr) -> LogicalExpr {
    let t = |x: &LogicalExpr| Box::new(twin_expr(x));
    match e {
        LogicalExpr::Literal(x, p) => LogicalExpr::Literal(*x, *p),
        LogicalExpr::Not(a) => LogicalExpr::Not(t(a)),
        LogicalExpr::And(a, b) => LogicalExpr::And(t(a), t(b)),
        LogicalExpr::Or(a, b) => LogicalExpr::Or(t(a), t(b)),
        LogicalExpr::Iff(a, b) => LogicalExpr::Xor(t(a), t(b)),
        LogicalExpr::Xor(a, b) => LogicalExpr::Iff(t(a), t(b)),
        LogicalExpr::Ite { guard, thn, els } => LogicalExpr::Ite { guard: t(guard), thn: t(els), els: t(thn) },
    }
}

fn sdd_tt(p: SddPtr, n: usize) -> String {
    (0..(1usize << n))
        .map(|a| {
            let inst: Vec<bool> = (0..n).map(|x| (a >> x) & 1 == 1).collect();
            if p.evaluate(&inst) { '1' } else { '0' }
        })
        .collect()
}

pub fn comp_line(rng: &mut Rng, maxvars: usize) -> String {
    // at least one clause and one variable so that every front end applies; the empty formula
    // and formulas made of empty clauses are generated as well (n is then forced to >= 1 by
    // padding the order)
    let raw = gen_cnf(rng, maxvars, 2 * maxvars, true);
    let cnf = to_cnf(&raw);
    let n = std::cmp::max(cnf.num_vars(), 1);
    let order = rng.perm(n);
    let pm: Vec<Option<bool>> = (0..n)
        .map(|_| match rng.below(4) {
            0 => Some(true),
            1 => Some(false),
            _ => None,
        })
        .collect();
    let pm_s: String = pm
        .iter()
        .map(|o| match o {
            None => 'n',
            Some(true) => 't',
            Some(false) => 'f',
        })
        .collect();
    let e = gen_expr(rng, n, 4);
    let elim = rng.perm(n);
    let vt = gen_vtree(rng, n);
    let head = format!(
        "comp n={} order={} raw={} cnf={} pm={} e={} elim={} vtree={}",
        n,
        csv(&order),
        print_raw(&raw),
        print_cnf(&cnf),
        pm_s,
        print_expr(&e),
        csv(&elim),
        vt.print()
    );
    let r = guarded(|| {
        rsdd::verif_hooks::set_table_capacity(Some(8));
        let b = RobddBuilder::<AllIteTable<BddPtr>>::new(mk_order(&order));
        let c1 = b.compile_cnf(&cnf);
        let model = PartialModel::from_assignments(&pm);
        let wa = b.compile_cnf_with_assignments(&cnf, &model);
        let cc = b.condition_model(c1, &model);
        let ex = b.compile_logical_expr(&e);
        // plan from a dtree (needs at least one clause)
        let eo = VarOrder::new(&elim.iter().map(|&x| VarLabel::new_usize(x)).collect::<Vec<_>>());
        let (plan_s, dvt): (String, Option<VTree>) = if cnf.clauses().is_empty() {
            ("skipped".to_string(), None)
        } else {
            let dt = DTree::from_cnf(&cnf, &eo);
            let plan = BottomUpPlan::from_dtree(&dt);
            (bdd_raw_string(b.compile_plan(&plan)), VTree::from_dtree(&dt))
        };
        // the SDD builder under a generated vtree and under the dtree-derived one
        let sb = CompressionSddBuilder::new(vt.to_vtree());
        let s1 = sb.compile_cnf(&cnf);
        let s2 = sb.compile_logical_expr(&e);
        // the twin and then the expression again, on the same SDD builder and the same BDD builder
        let e2 = twin_expr(&e);
        let s2t = sb.compile_logical_expr(&e2);
        let s2b = sb.compile_logical_expr(&e);
        let ext = b.compile_logical_expr(&e2);
        let exb = b.compile_logical_expr(&e);
        let s3 = if cnf.clauses().is_empty() {
            "skipped".to_string()
        } else {
            let dt = DTree::from_cnf(&cnf, &eo);
            sdd_canon(sb.compile_plan(&BottomUpPlan::from_dtree(&dt)), false)
        };
        let dsdd = match &dvt {
            // the derived vtree only contains the occurring variables: usable when all occur
            Some(v) if v.num_vars() == cnf.num_vars() && v.all_vars().len() == cnf.num_vars() => {
                let db = CompressionSddBuilder::new(v.clone());
                format!("{}:{}", print_vtree(v), sdd_tt(db.compile_cnf(&cnf), n))
            }
            _ => "skipped".to_string(),
        };
        format!(
            "cnf={} wa={} cc={} expr={} plan={} scnf={} sexpr={} splan={} sctt={} sett={} dsdd={} twin={} etw={} eagain={} stw={} sagain={}",
            bdd_raw_string(c1),
            bdd_raw_string(wa),
            bdd_raw_string(cc),
            bdd_raw_string(ex),
            plan_s,
            sdd_canon(s1, false),
            sdd_canon(s2, false),
            s3,
            sdd_tt(s1, n),
            sdd_tt(s2, n),
            dsdd,
            print_expr(&e2),
            bdd_raw_string(ext),
            bdd_raw_string(exb),
            sdd_tt(s2t, n),
            sdd_canon(s2b, false)
        )
    });
    format!("{} => {}", head, r.unwrap_or_else(|e| e))
}
