//! `cnf` stream (C15): CNF utilities, partial models, the residual hasher
use crate::cnfgen::*;
use crate::common::*;
use crate::rng::Rng;
use rsdd::constants::primes;
use rsdd::repr::{Literal, PartialModel, VarLabel, VarSet, WmcParams};
use rsdd::util::semirings::FiniteField;
use std::collections::HashMap;

fn signed(c: &[Literal]) -> String {
    c.iter()
        .map(|l| format!("{}{}", if l.polarity() { "" } else { "-" }, l.label().value()))
        .collect::<Vec<_>>()
        .join(",")
}

fn clauses_str(cs: &[Vec<Literal>]) -> String {
    cs.iter().map(|c| signed(c)).collect::<Vec<_>>().join(";")
}

fn lits_str<I: Iterator<Item = Literal>>(it: I) -> String {
    it.map(|l| format!("{}{}", if l.polarity() { 'p' } else { 'n' }, l.label().value())).collect::<Vec<_>>().join(".")
}

fn vs_str(s: &VarSet) -> String {
    s.iter().map(|v| v.value().to_string()).collect::<Vec<_>>().join(".")
}

/// `kind=book`: a history of updates of two partial models and two variable sets, every
/// observer printed after every update (C15: "partial-model and variable-set bookkeeping")
fn book_line(rng: &mut Rng, maxvars: usize, maxops: usize) -> String {
    // one line in four works over a wide universe (indices beyond one and beyond two 32-bit
    // blocks of the underlying bit sets)
    let n = if rng.chance(1, 4) { rng.range(33, 70) as usize } else { rng.range(1, maxvars as u64) as usize };
    let nsteps = rng.range(2, maxops as u64) as usize;
    // commands: which object (0/1), which operation, variable, value; overwrites of an already
    // assigned variable (with and without a change of value) are frequent on purpose
    let cmds: Vec<(u64, u64, usize, bool)> =
        (0..nsteps)
            .map(|_| {
                // a handful of distinct indices so that updates revisit variables; in a wide
                // universe half of them lie at or above index 32
                let v = if n > 32 {
                    std::cmp::min([0, 1, 31, 32, 33, 40, 63, 64, n - 1][rng.below(9) as usize], n - 1)
                } else {
                    rng.below(n as u64) as usize
                };
                (rng.below(2), rng.below(8), v, rng.coin())
            })
            .collect();
    let head = format!(
        "cnf kind=book n={} cmds={}",
        n,
        cmds.iter().map(|(o, k, v, b)| format!("{}.{}.{}.{}", o, k, v, *b as u8)).collect::<Vec<_>>().join(",")
    );
    let r = guarded(|| {
        let mut pm = [PartialModel::new(n), PartialModel::new(n)];
        let mut vs = [VarSet::new(), VarSet::new_with_num_vars(n)];
        let mut obs = Vec::new();
        for (o, k, v, b) in cmds.iter() {
            let (o, l) = (*o as usize, VarLabel::new_usize(*v));
            match k {
                0 | 1 | 2 => pm[o].set(l, *b),
                3 => pm[o].unset(l),
                4 | 5 => vs[o].insert(l),
                6 => vs[o].remove(l),
                _ => {
                    let other = vs[1 - o].clone();
                    vs[o].union_with(&other)
                }
            }
            let get = |m: &PartialModel| -> String {
                (0..n)
                    .map(|x| match m.get(VarLabel::new_usize(x)) {
                        None => 'n',
                        Some(true) => 't',
                        Some(false) => 'f',
                    })
                    .collect()
            };
            let isset = |m: &PartialModel| -> String { (0..n).map(|x| if m.is_set(VarLabel::new_usize(x)) { '1' } else { '0' }).collect() };
            let lit = Literal::new(l, *b);
            let rebuilt = |m: &PartialModel| -> bool {
                let a: Vec<Option<bool>> = (0..n).map(|x| m.get(VarLabel::new_usize(x))).collect();
                let same = PartialModel::from_assignments(&a) == *m;
                // a total model built by `from_total_model` agrees with `from_assignments`
                let tot: Vec<bool> = a.iter().map(|o| o.unwrap_or(false)).collect();
                let tot_o: Vec<Option<bool>> = tot.iter().map(|b| Some(*b)).collect();
                // the same partial model declared over a larger universe is the same partial model
                let lits: Vec<Literal> = m.assignment_iter().collect();
                let wider = PartialModel::from_litvec(&lits, n + 37);
                same && wider == *m && PartialModel::from_total_model(&tot) == PartialModel::from_assignments(&tot_o)
            };
            obs.push(format!(
                "{}/{}/{}/{}/{}/{}/{}/{}{}{}{}/{}{}/{}/{}/{}/{}/{}/{}/{}/{}/{}{}{}{}",
                get(&pm[0]),
                get(&pm[1]),
                isset(&pm[0]),
                lits_str(pm[0].assignment_iter()),
                lits_str(pm[1].assignment_iter()),
                lits_str(pm[0].difference(&pm[1])),
                lits_str(pm[1].difference(&pm[0])),
                pm[o].lit_implied(lit) as u8,
                pm[o].lit_neg_implied(lit) as u8,
                lit.implies_true(&lit.negated()) as u8,
                lit.implies_false(&lit.negated()) as u8,
                rebuilt(&pm[0]) as u8,
                rebuilt(&pm[1]) as u8,
                vs_str(&vs[0]),
                vs_str(&vs[1]),
                vs_str(&vs[0].union(&vs[1])),
                vs_str(&vs[0].minus(&vs[1])),
                vs_str(&vs[0].intersect_varset(&vs[1])),
                vs[0].difference(&vs[1]).map(|v| v.value().to_string()).collect::<Vec<_>>().join("."),
                vs[0].intersect(&vs[1]).map(|v| v.to_string()).collect::<Vec<_>>().join("."),
                vs[0].len(),
                vs[0].is_empty() as u8,
                vs[1].contains(l) as u8,
                (vs[0] == vs[1]) as u8,
                (pm[0] == pm[1]) as u8
            ));
        }
        format!("obs={}", obs.join(","))
    });
    format!("{} => {}", head, r.unwrap_or_else(|e| e))
}

pub fn cnf_lines(rng: &mut Rng, idx: u64, maxvars: usize, maxops: usize) -> Vec<String> {
    let mut out = Vec::new();
    if idx % 5 == 4 {
        out.push(book_line(rng, maxvars, maxops));
        return out;
    }
    let raw = gen_cnf(rng, maxvars, 2 * maxvars, true);
    let cnf = to_cnf(&raw);
    let n = cnf.num_vars();
    if idx % 2 == 0 {
        let pm: Vec<Option<bool>> = (0..n)
            .map(|_| match rng.below(3) {
                0 => Some(true),
                1 => Some(false),
                _ => None,
            })
            .collect();
        let pm_s: String = pm
            .iter()
            .map(|o| match o {
                None => 'n',
                Some(true) => 't',
                Some(false) => 'f',
            })
            .collect();
        let lit = (rng.below(std::cmp::max(n, 1) as u64) as usize, rng.coin());
        let ws: Vec<(u128, u128)> = (0..n).map(|_| (rng.range(0, 4) as u128, rng.range(0, 4) as u128)).collect();
        let head = format!(
            "cnf kind=util raw={} pm={} lit={}{} ws={}",
            print_raw(&raw),
            pm_s,
            if lit.1 { 'p' } else { 'n' },
            lit.0,
            ws.iter().map(|(l, h)| format!("{}:{}", l, h)).collect::<Vec<_>>().join(",")
        );
        let r = guarded(|| {
            let tt: String = (0..(1usize << n))
                .map(|a| {
                    let v: Vec<bool> = (0..n).map(|x| (a >> x) & 1 == 1).collect();
                    if cnf.eval(&v) { '1' } else { '0' }
                })
                .collect();
            let sat = cnf.is_sat_partial(&PartialModel::from_assignments(&pm));
            let cond = if n > 0 {
                let c = cnf.condition(Literal::new(VarLabel::new_usize(lit.0), lit.1));
                format!("cond={} cnc={} cnv={}", clauses_str(c.clauses()), c.clauses().len(), c.num_vars())
            } else {
                "cond= cnc=0 cnv=0".to_string()
            };
            let mut m = HashMap::new();
            for (i, (l, h)) in ws.iter().enumerate() {
                m.insert(
                    VarLabel::new_usize(i),
                    (
                        FiniteField::<{ primes::U64_LARGEST }>::new(*l),
                        FiniteField::<{ primes::U64_LARGEST }>::new(*h),
                    ),
                );
            }
            let w = cnf.wmc(&WmcParams::new(m)).value();
            format!(
                "clauses={} nc={} nv={} tt={} sat={} {} wmc={} dimacs={}",
                clauses_str(cnf.clauses()),
                cnf.clauses().len(),
                n,
                tt,
                sat as u8,
                cond,
                w,
                cnf.to_dimacs().replace('\n', "|").replace(' ', "_")
            )
        });
        out.push(format!("{} => {}", head, r.unwrap_or_else(|e| e)));
    } else {
        // hasher history
        let nsteps = rng.range(1, maxops as u64) as usize;
        let mut cmds = Vec::new();
        let mut hashes = Vec::new();
        let mut g = rng.clone();
        let r = guarded(|| {
            let mut h = cnf.hasher().clone();
            let mut m = PartialModel::new(n);
            let mut saved: Vec<PartialModel> = Vec::new();
            for _ in 0..nsteps {
                match g.below(5) {
                    0 => {
                        h.push();
                        saved.push(m.clone());
                        cmds.push("u".to_string());
                    }
                    1 if !saved.is_empty() => {
                        h.pop();
                        m = saved.pop().unwrap();
                        cmds.push("o".to_string());
                    }
                    _ if n > 0 => {
                        let v = g.below(n as u64) as usize;
                        // a decision never contradicts the current model (the documented use:
                        // decide between push and pop); repeats are allowed
                        let p = match m.get(VarLabel::new_usize(v)) {
                            Some(cur) => cur,
                            None => g.coin(),
                        };
                        let l = Literal::new(VarLabel::new_usize(v), p);
                        // one step in four: the literal enters the partial model WITHOUT being
                        // announced to the hasher (the model handed to `hash` is the caller's: it
                        // may hold propagated literals the hasher was never told about)
                        if g.below(4) == 0 {
                            m.set(l.label(), l.polarity());
                            cmds.push(format!("m{}{}", if p { 'p' } else { 'n' }, v));
                        } else {
                            h.decide(l);
                            m.set(l.label(), l.polarity());
                            cmds.push(format!("d{}{}", if p { 'p' } else { 'n' }, v));
                        }
                    }
                    _ => {
                        cmds.push("h".to_string());
                    }
                }
                let dbg = format!("{:?}", h.hash(&m));
                // HashedCNF { v: [a, b] }
                let inner = dbg.split('[').nth(1).unwrap_or("").split(']').next().unwrap_or("").replace(' ', "");
                let mstr: String = (0..n)
                    .map(|x| match m.get(VarLabel::new_usize(x)) {
                        None => 'n',
                        Some(true) => 't',
                        Some(false) => 'f',
                    })
                    .collect();
                hashes.push(format!("{}:{}", inner.replace(',', "."), mstr));
            }
        });
        let head = format!("cnf kind=hasher raw={} n={} cmds={}", print_raw(&raw), n, cmds.join(","));
        match r {
            Ok(()) => out.push(format!("{} => hashes={}", head, hashes.join(","))),
            Err(e) => out.push(format!("{} => {} hashes={}", head, e, hashes.join(","))),
        }
    }
    out
}
