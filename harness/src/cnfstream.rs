//! `cnf` stream (C15): CNF utilities, partial models, the residual hasher
use crate::cnfgen::*;
use crate::common::*;
use crate::rng::Rng;
use rsdd::constants::primes;
use rsdd::repr::{Literal, PartialModel, VarLabel, WmcParams};
use rsdd::util::semirings::FiniteField;
use std::collections::HashMap;

fn signed(c: &[Literal]) -> String {
    c.iter()
        .map(|l| format!("{}{}", if l.polarity() { "" } else { "-" }, l.label().value()))
        .collect::<Vec<_>>()
        .join(",")
}

fn clauses_str(cs: &[Vec<Literal>]) -> String {
    cs.iter().map(|c| signed(c)).collect::<Vec<_>>().join(";")
}

pub fn cnf_lines(rng: &mut Rng, idx: u64, maxvars: usize, maxops: usize) -> Vec<String> {
    let mut out = Vec::new();
    let raw = gen_cnf(rng, maxvars, 2 * maxvars, true);
    let cnf = to_cnf(&raw);
    let n = cnf.num_vars();
    if idx % 2 == 0 {
        let pm: Vec<Option<bool>> = (0..n)
            .map(|_| match rng.below(3) {
                0 => Some(true),
                1 => Some(false),
                _ => None,
            })
            .collect();
        let pm_s: String = pm
            .iter()
            .map(|o| match o {
                None => 'n',
                Some(true) => 't',
                Some(false) => 'f',
            })
            .collect();
        let lit = (rng.below(std::cmp::max(n, 1) as u64) as usize, rng.coin());
        let ws: Vec<(u128, u128)> = (0..n).map(|_| (rng.range(0, 4) as u128, rng.range(0, 4) as u128)).collect();
        let head = format!(
            "cnf kind=util raw={} pm={} lit={}{} ws={}",
            print_raw(&raw),
            pm_s,
            if lit.1 { 'p' } else { 'n' },
            lit.0,
            ws.iter().map(|(l, h)| format!("{}:{}", l, h)).collect::<Vec<_>>().join(",")
        );
        let r = guarded(|| {
            let tt: String = (0..(1usize << n))
                .map(|a| {
                    let v: Vec<bool> = (0..n).map(|x| (a >> x) & 1 == 1).collect();
                    if cnf.eval(&v) { '1' } else { '0' }
                })
                .collect();
            let sat = cnf.is_sat_partial(&PartialModel::from_assignments(&pm));
            let cond = if n > 0 {
                let c = cnf.condition(Literal::new(VarLabel::new_usize(lit.0), lit.1));
                format!("cond={} cnc={} cnv={}", clauses_str(c.clauses()), c.clauses().len(), c.num_vars())
            } else {
                "cond= cnc=0 cnv=0".to_string()
            };
            let mut m = HashMap::new();
            for (i, (l, h)) in ws.iter().enumerate() {
                m.insert(
                    VarLabel::new_usize(i),
                    (
                        FiniteField::<{ primes::U64_LARGEST }>::new(*l),
                        FiniteField::<{ primes::U64_LARGEST }>::new(*h),
                    ),
                );
            }
            let w = cnf.wmc(&WmcParams::new(m)).value();
            format!(
                "clauses={} nc={} nv={} tt={} sat={} {} wmc={} dimacs={}",
                clauses_str(cnf.clauses()),
                cnf.clauses().len(),
                n,
                tt,
                sat as u8,
                cond,
                w,
                cnf.to_dimacs().replace('\n', "|").replace(' ', "_")
            )
        });
        out.push(format!("{} => {}", head, r.unwrap_or_else(|e| e)));
    } else {
        // hasher history
        let nsteps = rng.range(1, maxops as u64) as usize;
        let mut cmds = Vec::new();
        let mut hashes = Vec::new();
        let mut g = rng.clone();
        let r = guarded(|| {
            let mut h = cnf.hasher().clone();
            let mut m = PartialModel::new(n);
            let mut saved: Vec<PartialModel> = Vec::new();
            for _ in 0..nsteps {
                match g.below(5) {
                    0 => {
                        h.push();
                        saved.push(m.clone());
                        cmds.push("u".to_string());
                    }
                    1 if !saved.is_empty() => {
                        h.pop();
                        m = saved.pop().unwrap();
                        cmds.push("o".to_string());
                    }
                    _ if n > 0 => {
                        let v = g.below(n as u64) as usize;
                        // a decision never contradicts the current model (the documented use:
                        // decide between push and pop); repeats are allowed
                        let p = match m.get(VarLabel::new_usize(v)) {
                            Some(cur) => cur,
                            None => g.coin(),
                        };
                        let l = Literal::new(VarLabel::new_usize(v), p);
                        h.decide(l);
                        m.set(l.label(), l.polarity());
                        cmds.push(format!("d{}{}", if p { 'p' } else { 'n' }, v));
                    }
                    _ => {
                        cmds.push("h".to_string());
                    }
                }
                let dbg = format!("{:?}", h.hash(&m));
                // HashedCNF { v: [a, b] }
                let inner = dbg.split('[').nth(1).unwrap_or("").split(']').next().unwrap_or("").replace(' ', "");
                let mstr: String = (0..n)
                    .map(|x| match m.get(VarLabel::new_usize(x)) {
                        None => 'n',
                        Some(true) => 't',
                        Some(false) => 'f',
                    })
                    .collect();
                hashes.push(format!("{}:{}", inner.replace(',', "."), mstr));
            }
        });
        let head = format!("cnf kind=hasher raw={} n={} cmds={}", print_raw(&raw), n, cmds.join(","));
        match r {
            Ok(()) => out.push(format!("{} => hashes={}", head, hashes.join(","))),
            Err(e) => out.push(format!("{} => {} hashes={}", head, e, hashes.join(","))),
        }
    }
    out
}
