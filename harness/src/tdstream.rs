//! `td` stream (C06): top-down compilation to decision-DNNF with both node stores
use crate::cnfgen::*;
use crate::common::*;
use crate::rng::Rng;
use rsdd::builder::decision_nnf::{DecisionNNFBuilder, SemanticDecisionNNFBuilder, StandardDecisionNNFBuilder};
use rsdd::builder::TopDownBuilder;
use rsdd::constants::primes;
use rsdd::repr::{BddPtr, DDNNFPtr, VarLabel, VarOrder};

fn tt(d: BddPtr, n: usize) -> String {
    (0..(1usize << n))
        .map(|a| {
            let inst: Vec<bool> = (0..n).map(|x| (a >> x) & 1 == 1).collect();
            if d.evaluate(&inst) { '1' } else { '0' }
        })
        .collect()
}

fn report<'a, B: DecisionNNFBuilder<'a>>(b: &'a B, cnf: &rsdd::repr::Cnf, n: usize) -> String {
    let r = b.compile_cnf_topdown(cnf);
    let mut conds = Vec::new();
    for v in 0..n {
        for val in [false, true] {
            let c1 = b.condition(r, VarLabel::new_usize(v), val);
            let c2 = b.condition(r.neg(), VarLabel::new_usize(v), val);
            conds.push(format!("{}.{}", tt(c1, n), tt(c2, n)));
        }
    }
    format!(
        "res={} isfalse={} tt={} conds={}",
        bdd_raw_string(r),
        r.is_false() as u8,
        tt(r, n),
        conds.join(",")
    )
}

/// CNFs for top-down compilation: random ones and the directed families (unit clauses over an
/// unsatisfiable core, parity constraints, guarded multiplexers); the flag says that a family
/// aimed at the hash-identified store was used
pub fn gen_td_raw(rng: &mut Rng, maxvars: usize) -> (RawCnf, bool) {
    let mut raw = gen_cnf(rng, maxvars, 2 * maxvars + 2, true);
    // directed family: unit clauses on top of an unsatisfiable core whose refutation needs a
    // decision (all four sign combinations over two variables)
    if maxvars >= 3 && rng.chance(1, 6) {
        let vs = rng.perm(maxvars);
        let (u, a, b) = (vs[0], vs[1], vs[2]);
        raw.truncate(rng.below(3) as usize);
        raw.push(vec![(u, rng.coin())]);
        for (pa, pb) in [(true, true), (true, false), (false, true), (false, false)] {
            raw.push(vec![(a, pa), (b, pb)]);
        }
        rng.shuffle(&mut raw);
    }
    // directed family: a parity constraint over three or four variables (all clauses of one
    // parity) plus up to two further clauses — the shape under which the semantic store shares a
    // sub-function with its negation, i.e. complemented edges inside the diagram with two parents
    let mut parity = false;
    if maxvars >= 4 && rng.chance(1, 5) {
        parity = true;
        let vs = rng.perm(maxvars);
        let k = 3 + rng.below(2) as usize;
        let want = rng.coin();
        raw.truncate(rng.below(3) as usize);
        for m in 0..(1u32 << k) {
            // forbid every assignment of the wrong parity: clause = negation of that assignment
            if (m.count_ones() % 2 == 1) != want {
                raw.push((0..k).map(|i| (vs[i], (m >> i) & 1 == 0)).collect());
            }
        }
        rng.shuffle(&mut raw);
    }
    // directed family: guarded multiplexers — two or three different cubes over one or two guard
    // variables, each implying `sel ? la : lb` over shared data variables with varying
    // polarities.  Sub-functions and their negations then occur under several residual CNFs,
    // which is when a hash-identified store answers from its table instead of the component
    // cache (hits on the hash of a function and on the hash of its negation).
    if maxvars >= 5 && !parity && rng.chance(1, 5) {
        parity = true;
        let vs = rng.perm(maxvars);
        let ng = 1 + rng.below(2) as usize; // guard variables
        let guards = &vs[..ng];
        let rest = &vs[ng..];
        let nsel = std::cmp::min(1 + rng.below(2) as usize, rest.len().saturating_sub(2));
        let sels = &rest[..nsel];
        let data = &rest[nsel..std::cmp::min(rest.len(), nsel + 2)];
        raw.truncate(rng.below(2) as usize);
        let ncubes = 2 + rng.below(2) as usize;
        let mut cubes: Vec<u32> = (0..(1u32 << ng)).collect();
        rng.shuffle(&mut cubes);
        for &cube in cubes.iter().take(ncubes) {
            // clause prefix: negation of the guard cube
            let pre: Vec<(usize, bool)> = guards.iter().enumerate().map(|(i, &g)| (g, (cube >> i) & 1 == 0)).collect();
            let sel = sels[rng.below(sels.len() as u64) as usize];
            let (pa, pb) = (rng.coin(), rng.coin());
            let (da, db) = (data[0], data[data.len() - 1]);
            let mut c1 = pre.clone();
            c1.push((sel, false));
            c1.push((da, pa));
            let mut c2 = pre.clone();
            c2.push((sel, true));
            c2.push((db, pb));
            raw.push(c1);
            raw.push(c2);
        }
    }
    (raw, parity)
}

pub fn td_line(rng: &mut Rng, maxvars: usize) -> String {
    let (raw, parity) = gen_td_raw(rng, maxvars);
    let cnf = to_cnf(&raw);
    let n = cnf.num_vars();
    let order = if rng.chance(1, 3) { (0..n).collect() } else { rng.perm(n) };
    let sem = if parity { rng.chance(3, 4) } else { rng.chance(1, 3) };
    let head = format!(
        "td n={} raw={} cnf={} order={} store={}",
        n,
        print_raw(&raw),
        print_cnf(&cnf),
        csv(&order),
        if sem { "sem" } else { "std" }
    );
    // one line in three: the SAME builder first compiles an unsatisfiable CNF whose refutation
    // needs a decision (a compilation must not leave anything behind that a later one can see)
    let pre = n >= 2 && raw.len() % 3 == 0;
    // (the order must enumerate exactly the CNF's variables: mention every variable once more)
    let mut pre_raw = vec![
        vec![(0, true), (1, true)],
        vec![(0, true), (1, false)],
        vec![(0, false), (1, true)],
        vec![(0, false), (1, false)],
    ];
    for v in 2..n {
        pre_raw.push(vec![(0, true), (v, v % 2 == 0)]);
    }
    let pre_cnf = to_cnf(&pre_raw);
    let r = guarded(|| {
        rsdd::verif_hooks::set_table_capacity(Some(8));
        let vo = VarOrder::new(&order.iter().map(|&x| VarLabel::new_usize(x)).collect::<Vec<_>>());
        if sem {
            let b = SemanticDecisionNNFBuilder::<{ primes::U64_LARGEST }>::new(vo);
            if pre {
                let _ = b.compile_cnf_topdown(&pre_cnf);
            }
            report(&b, &cnf, n)
        } else {
            let b = StandardDecisionNNFBuilder::new(vo);
            if pre {
                let _ = b.compile_cnf_topdown(&pre_cnf);
            }
            report(&b, &cnf, n)
        }
    });
    format!("{} => {}", head, r.unwrap_or_else(|e| e))
}
