mod bddgen;
mod cnfgen;
mod clistream;
mod cnfstream;
mod compstream;
mod optstream;
mod querystream;
mod ordstream;
mod tdstream;
mod upstream;
mod common;
mod ffistream;
mod hashstream;
mod ringstream;
mod rng;
mod sddstream;
mod serstream;
mod tblstream;
mod wmcstream;

use rng::Rng;
use std::io::Write;

fn arg<T: std::str::FromStr>(args: &[String], name: &str, default: T) -> T {
    for a in args {
        if let Some(v) = a.strip_prefix(&format!("--{}=", name)) {
            if let Ok(x) = v.parse() {
                return x;
            }
        }
    }
    default
}

fn main() {
    // panics are outcomes, not crashes: silence the default hook
    if std::env::var("HARNESS_DEBUG").is_err() {
        std::panic::set_hook(Box::new(|_| {}));
    }
    let args: Vec<String> = std::env::args().collect();
    if args.len() < 2 {
        eprintln!("usage: harness <stream> --seed=S --cases=N [--from=I] [--maxvars=K] [--maxops=K]");
        std::process::exit(2);
    }
    let stream = args[1].as_str();
    if stream == "dimacs-probe" {
        // debugging aid: does Cnf::from_dimacs accept the given text?
        let text = args[2].replace("\\n", "\n");
        let r = common::guarded(|| rsdd::repr::Cnf::from_dimacs(&text).clauses().len());
        println!("{:?}", r);
        return;
    }
    let seed: u64 = arg(&args, "seed", 1);
    let cases: u64 = arg(&args, "cases", 10);
    let from: u64 = arg(&args, "from", 0);
    let maxvars: usize = arg(&args, "maxvars", 6);
    let maxops: usize = arg(&args, "maxops", 30);
    let out = std::io::stdout();
    let mut out = std::io::BufWriter::new(out.lock());
    for idx in from..from + cases {
        let mut rng = Rng::for_case(seed, stream, idx);
        let lines: Vec<String> = match stream {
            "bdd" => {
                let n = rng.range(2, maxvars as u64) as usize;
                let nops = rng.range(6, maxops as u64) as usize;
                let prog = bddgen::gen_program(&mut rng, n, nops, true);
                let cache = match rng.below(3) {
                    0 => bddgen::CacheKind::All,
                    _ => bddgen::CacheKind::Lru(rng.below(4) as usize),
                };
                let tbl = [0usize, 4, 4, 8, 16][rng.below(5) as usize];
                vec![bddgen::bdd_line(&prog, cache, tbl)]
            }
            "sdd" => vec![sddstream::sdd_line(&mut rng, maxvars, maxops)],
            "up" => vec![upstream::up_line(&mut rng, maxvars, maxops)],
            "td" => vec![tdstream::td_line(&mut rng, maxvars)],
            "ord" => ordstream::ord_lines(&mut rng, idx, maxvars),
            "cnf" => cnfstream::cnf_lines(&mut rng, idx, maxvars, maxops),
            "opt" => optstream::opt_lines(&mut rng, maxvars, maxops),
            "comp" => vec![compstream::comp_line(&mut rng, maxvars)],
            "query" => vec![querystream::query_line(&mut rng, maxvars, maxops)],
            "ser" => serstream::ser_lines(&mut rng, idx, maxvars, maxops),
            "ffi" => vec![ffistream::ffi_line(&mut rng, maxvars, maxops)],
            "cli" => {
                let bindir: String = arg(&args, "bindir", "/verif/.build/cli-target/debug".to_string());
                let scratch: String = arg(&args, "scratch", "/verif/.build/cli-scratch".to_string());
                let _ = std::fs::create_dir_all(&scratch);
                clistream::cli_lines(&mut rng, idx, maxvars, &bindir, &scratch)
            }
            "hash" => hashstream::hash_lines(&mut rng, idx, maxvars, maxops),
            "ring" => ringstream::ring_lines(&mut rng, idx),
            "tbl" => vec![tblstream::tbl_line(&mut rng, maxops)],
            "lru" => vec![tblstream::lru_line(&mut rng, maxops)],
            "wmc" => wmcstream::wmc_lines(&mut rng, maxvars, maxops),
            _ => {
                eprintln!("unknown stream {}", stream);
                std::process::exit(2);
            }
        };
        for l in lines {
            writeln!(out, "{}", l).unwrap();
        }
    }
}
