mod bddgen;
mod cnfgen;
mod clistream;
mod cnfstream;
mod compstream;
mod optstream;
mod querystream;
mod ordstream;
mod tdstream;
mod upstream;
mod common;
mod fficnf;
mod ffistream;
mod hashstream;
mod ringstream;
mod rng;
mod sddstream;
mod serstream;
mod tblstream;
mod wmcstream;

use rng::Rng;
use std::io::Write;

fn arg<T: std::str::FromStr>(args: &[String], name: &str, default: T) -> T {
    for a in args {
        if let Some(v) = a.strip_prefix(&format!("--{}=", name)) {
            if let Ok(x) = v.parse() {
                return x;
            }
        }
    }
    default
}

fn main() {
    // panics are outcomes, not crashes: silence the default hook
    if std::env::var("HARNESS_DEBUG").is_err() {
        std::panic::set_hook(Box::new(|_| {}));
    }
    let args: Vec<String> = std::env::args().collect();
    if args.len() < 2 {
        eprintln!("usage: harness <stream> --seed=S --cases=N [--from=I] [--maxvars=K] [--maxops=K]");
        std::process::exit(2);
    }
    let stream = args[1].as_str();
    if stream == "dimacs-probe" {
        // debugging aid: does Cnf::from_dimacs accept the given text?
        let text = args[2].replace("\\n", "\n");
        let r = common::guarded(|| rsdd::repr::Cnf::from_dimacs(&text).clauses().len());
        println!("{:?}", r);
        return;
    }
    if stream == "hash-probe" {
        // debugging aid: replay a stored hash line (file given as second argument)
        let text = std::fs::read_to_string(&args[2]).unwrap();
        hashstream::probe(text.trim());
        return;
    }
    let seed: u64 = arg(&args, "seed", 1);
    let cases: u64 = arg(&args, "cases", 10);
    let from: u64 = arg(&args, "from", 0);
    let maxvars: usize = arg(&args, "maxvars", 6);
    let maxops: usize = arg(&args, "maxops", 30);
    // watchdog: the time a case takes is not part of any property (an uncompressed SDD program
    // can take minutes in the implementation's structural comparisons); a case that exceeds the
    // limit is reported as `=> timeout` and the rest of the shard continues in a child process
    let limit_ms: u64 = std::env::var("HARNESS_CASE_TIMEOUT_MS").ok().and_then(|v| v.parse().ok()).unwrap_or(20_000);
    let started = std::sync::Arc::new(std::sync::atomic::AtomicU64::new(0));
    // set by the watchdog when it takes over: from then on the main thread writes nothing
    let abandoned = std::sync::Arc::new(std::sync::atomic::AtomicBool::new(false));
    let current = std::sync::Arc::new(std::sync::atomic::AtomicU64::new(from));
    {
        let (started, current, abandoned) = (started.clone(), current.clone(), abandoned.clone());
        let args = args.clone();
        let end = from + cases;
        let stream_name = stream.to_string();
        std::thread::spawn(move || {
            use std::sync::atomic::Ordering::SeqCst;
            let t0 = std::time::Instant::now();
            loop {
                std::thread::sleep(std::time::Duration::from_millis(250));
                let st = started.load(SeqCst);
                if st != 0 && (t0.elapsed().as_millis() as u64).saturating_sub(st) > limit_ms {
                    let idx = current.load(SeqCst);
                    {
                        // taken under the stdout lock so that the main thread is not in the
                        // middle of writing a line
                        let out = std::io::stdout();
                        let _guard = out.lock();
                        abandoned.store(true, SeqCst);
                    }
                    {
                        let out = std::io::stdout();
                        let mut out = out.lock();
                        let _ = writeln!(out, "{} idx={} => timeout", stream_name, idx);
                        let _ = out.flush();
                    }
                    let mut code = 0;
                    if idx + 1 < end {
                        let mut a: Vec<String> = args[1..]
                            .iter()
                            .filter(|x| !x.starts_with("--from=") && !x.starts_with("--cases="))
                            .cloned()
                            .collect();
                        a.push(format!("--from={}", idx + 1));
                        a.push(format!("--cases={}", end - idx - 1));
                        code = std::process::Command::new(&args[0]).args(&a).status().ok().and_then(|s| s.code()).unwrap_or(1);
                    }
                    std::process::exit(code);
                }
            }
        });
    }
    let clock = std::time::Instant::now();
    for idx in from..from + cases {
        current.store(idx, std::sync::atomic::Ordering::SeqCst);
        started.store(std::cmp::max(1, clock.elapsed().as_millis() as u64), std::sync::atomic::Ordering::SeqCst);
        let mut rng = Rng::for_case(seed, stream, idx);
        let lines: Vec<String> = match stream {
            "bdd" => {
                let n = rng.range(2, maxvars as u64) as usize;
                let nops = rng.range(6, maxops as u64) as usize;
                let prog = bddgen::gen_program(&mut rng, n, nops, true);
                let cache = match rng.below(3) {
                    0 => bddgen::CacheKind::All,
                    _ => bddgen::CacheKind::Lru(rng.below(4) as usize),
                };
                let tbl = [0usize, 4, 4, 8, 16][rng.below(5) as usize];
                vec![bddgen::bdd_line(&prog, cache, tbl)]
            }
            "sdd" => sddstream::sdd_lines(&mut rng, maxvars, maxops),
            "up" => vec![upstream::up_line(&mut rng, maxvars, maxops)],
            "td" => vec![tdstream::td_line(&mut rng, maxvars)],
            "ord" => ordstream::ord_lines(&mut rng, idx, maxvars),
            "cnf" => cnfstream::cnf_lines(&mut rng, idx, maxvars, maxops),
            "opt" => optstream::opt_lines(&mut rng, maxvars, maxops),
            "comp" => vec![compstream::comp_line(&mut rng, maxvars)],
            "query" => vec![querystream::query_line(&mut rng, maxvars, maxops)],
            "ser" => serstream::ser_lines(&mut rng, idx, maxvars, maxops),
            "ffi" => {
                if idx % 12 == 11 {
                    vec![ffistream::ffi_wide_line(&mut rng)]
                } else if idx % 3 == 2 {
                    vec![fficnf::ffi_cnf_line(&mut rng, maxvars)]
                } else {
                    vec![ffistream::ffi_line(&mut rng, maxvars, maxops)]
                }
            }
            "cli" => {
                let bindir: String = arg(&args, "bindir", "/verif/.build/cli-target/debug".to_string());
                let scratch: String = arg(&args, "scratch", "/verif/.build/cli-scratch".to_string());
                let _ = std::fs::create_dir_all(&scratch);
                clistream::cli_lines(&mut rng, idx, maxvars, &bindir, &scratch)
            }
            "hash" => hashstream::hash_lines(&mut rng, idx, maxvars, maxops),
            "ring" => ringstream::ring_lines(&mut rng, idx),
            "tbl" => vec![tblstream::tbl_line(&mut rng, maxops)],
            "lru" => vec![tblstream::lru_line(&mut rng, maxops)],
            "wmc" => wmcstream::wmc_lines(&mut rng, maxvars, maxops),
            _ => {
                eprintln!("unknown stream {}", stream);
                std::process::exit(2);
            }
        };
        started.store(0, std::sync::atomic::Ordering::SeqCst);
        let out = std::io::stdout();
        let mut out = out.lock();
        if abandoned.load(std::sync::atomic::Ordering::SeqCst) {
            // the watchdog reported this case as timed out and a child process continues the
            // shard: stay silent until the process exits
            drop(out);
            loop {
                std::thread::sleep(std::time::Duration::from_secs(3600));
            }
        }
        for l in lines {
            writeln!(out, "{}", l).unwrap();
        }
        out.flush().unwrap();
    }
}
