//! `up` stream (C09): decide/pop histories on the real SATSolver
use crate::cnfgen::*;
use crate::common::*;
use crate::rng::Rng;
use rsdd::repr::{DecisionResult, Literal, SATSolver, VarLabel};

fn lists(v: &[Vec<usize>]) -> String {
    v.iter().map(|l| l.iter().map(|x| x.to_string()).collect::<Vec<_>>().join(".")).collect::<Vec<_>>().join("/")
}

fn observe(s: &SATSolver, n: usize, tag: &str, with_diff: bool) -> String {
    let model: String = (0..n)
        .map(|v| match s.verif_get(VarLabel::new_usize(v)) {
            None => 'n',
            Some(true) => 't',
            Some(false) => 'f',
        })
        .collect();
    let diff = if with_diff && s.verif_depth() >= 2 {
        s.difference_iter()
            .map(|l| format!("{}{}", if l.polarity() { 'p' } else { 'n' }, l.label().value()))
            .collect::<Vec<_>>()
            .join(".")
    } else {
        "-".to_string()
    };
    let (wp, wn) = s.verif_watch_lists();
    format!(
        "{}:{}:{}:{}:{}:{}:{}:{}",
        tag,
        model,
        s.is_sat() as u8,
        s.cur_hash(),
        s.verif_depth(),
        diff,
        lists(&wp),
        lists(&wn)
    )
}

pub fn up_line(rng: &mut Rng, maxvars: usize, maxops: usize) -> String {
    let raw = gen_cnf(rng, maxvars, 2 * maxvars, true);
    let cnf = to_cnf(&raw);
    let n = cnf.num_vars();
    let nsteps = rng.range(1, maxops as u64) as usize;
    // commands are generated on the fly (pops only when something was pushed), so they are
    // recorded while running
    let mut cmds: Vec<String> = Vec::new();
    let mut obs: Vec<String> = Vec::new();
    let mut seed_rng = rng.clone();
    let r = guarded(|| {
        match SATSolver::new(cnf.clone()) {
            None => {
                obs.push("N".to_string());
            }
            Some(mut s) => {
                obs.push(observe(&s, n, "I", true));
                let mut pushed = 0usize;
                if n == 0 {
                    return;
                }
                for _ in 0..nsteps {
                    if pushed > 0 && seed_rng.chance(1, 3) {
                        s.pop();
                        pushed -= 1;
                        cmds.push("p".to_string());
                        obs.push(observe(&s, n, "P", false));
                    } else {
                        let v = seed_rng.below(n as u64) as usize;
                        let p = seed_rng.coin();
                        cmds.push(format!("d{}{}", v, if p { 't' } else { 'f' }));
                        let res = s.decide(Literal::new(VarLabel::new_usize(v), p));
                        let tag = match res {
                            DecisionResult::SAT => {
                                pushed += 1;
                                "S"
                            }
                            DecisionResult::Unknown => {
                                pushed += 1;
                                "K"
                            }
                            DecisionResult::UNSAT => "U",
                        };
                        obs.push(observe(&s, n, tag, tag != "U"));
                    }
                }
            }
        }
    });
    let head = format!("up n={} raw={} cnf={} hist={}", n, print_raw(&raw), print_cnf(&cnf), cmds.join(","));
    match r {
        Ok(()) => format!("{} => obs={}", head, obs.join("|")),
        Err(e) => format!("{} => {} obs={}", head, e, obs.join("|")),
    }
}
