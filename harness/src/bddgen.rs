//! operation programs over a BDD builder: generation, execution, printing
use crate::common::*;
use crate::rng::Rng;
use rsdd::builder::bdd::{BddBuilder, RobddBuilder};
use rsdd::builder::cache::{AllIteTable, IteTable, LruIteTable};
use rsdd::builder::BottomUpBuilder;
use rsdd::repr::{BddPtr, DDNNFPtr, PartialModel, VarLabel, VarOrder};

#[derive(Clone, Debug)]
pub enum Op {
    Const(bool),
    Var(usize, bool),
    NewVar(bool),
    Neg(usize),
    And(usize, usize),
    Or(usize, usize),
    Xor(usize, usize),
    Iff(usize, usize),
    Ite(usize, usize, usize),
    Cond(usize, usize, bool),
    CondM(usize, Vec<Option<bool>>),
    Exist(usize, usize),
    Compose(usize, usize, usize),
    AndL(Vec<usize>),
    OrL(Vec<usize>),
}

impl Op {
    pub fn print(&self) -> String {
        let b = |x: &bool| if *x { 1 } else { 0 };
        match self {
            Op::Const(v) => format!("const:{}", b(v)),
            Op::Var(x, p) => format!("var:{},{}", x, b(p)),
            Op::NewVar(p) => format!("newvar:{}", b(p)),
            Op::Neg(i) => format!("neg:{}", i),
            Op::And(i, j) => format!("and:{},{}", i, j),
            Op::Or(i, j) => format!("or:{},{}", i, j),
            Op::Xor(i, j) => format!("xor:{},{}", i, j),
            Op::Iff(i, j) => format!("iff:{},{}", i, j),
            Op::Ite(i, j, k) => format!("ite:{},{},{}", i, j, k),
            Op::Cond(i, x, v) => format!("cond:{},{},{}", i, x, b(v)),
            Op::CondM(i, m) => format!(
                "condm:{},{}",
                i,
                m.iter()
                    .map(|o| match o {
                        None => "n",
                        Some(true) => "t",
                        Some(false) => "f",
                    })
                    .collect::<String>()
            ),
            Op::Exist(i, x) => format!("exist:{},{}", i, x),
            Op::Compose(i, x, j) => format!("compose:{},{},{}", i, x, j),
            Op::AndL(is) => format!("andl:{}", csv(is)),
            Op::OrL(is) => format!("orl:{}", csv(is)),
        }
    }
    pub fn kind(&self) -> &'static str {
        match self {
            Op::Const(_) => "const",
            Op::Var(..) => "var",
            Op::NewVar(_) => "newvar",
            Op::Neg(_) => "neg",
            Op::And(..) => "and",
            Op::Or(..) => "or",
            Op::Xor(..) => "xor",
            Op::Iff(..) => "iff",
            Op::Ite(..) => "ite",
            Op::Cond(..) => "cond",
            Op::CondM(..) => "condm",
            Op::Exist(..) => "exist",
            Op::Compose(..) => "compose",
            Op::AndL(_) => "andl",
            Op::OrL(_) => "orl",
        }
    }
}

#[derive(Clone, Debug)]
pub struct Program {
    pub nvars: usize,
    /// pos_to_var
    pub order: Vec<usize>,
    pub ops: Vec<Op>,
}

/// index into the pool with a bias toward recent entries
fn pick_idx(rng: &mut Rng, len: usize) -> usize {
    if len <= 1 {
        return 0;
    }
    if rng.chance(1, 2) {
        let w = std::cmp::min(len, 6) as u64;
        len - 1 - rng.below(w) as usize
    } else {
        rng.below(len as u64) as usize
    }
}

pub fn gen_order(rng: &mut Rng, n: usize) -> Vec<usize> {
    match rng.below(4) {
        0 => (0..n).collect(),
        1 => (0..n).rev().collect(),
        _ => rng.perm(n),
    }
}

/// a mostly-valid program: starts with a few literals, then random operations
pub fn gen_program(rng: &mut Rng, nvars: usize, nops: usize, allow_newvar: bool) -> Program {
    gen_program_x(rng, nvars, nops, allow_newvar, false)
}

/// `basic`: only the operations every bottom-up builder has (no new variables, model conditioning, list operations)
pub fn gen_program_x(rng: &mut Rng, nvars: usize, nops: usize, allow_newvar: bool, basic: bool) -> Program {
    let order = gen_order(rng, nvars);
    let mut ops = Vec::new();
    let mut cur_vars = nvars;
    let nlits = std::cmp::min(nvars, 2 + rng.below(3) as usize);
    for _ in 0..nlits {
        ops.push(Op::Var(rng.below(cur_vars as u64) as usize, rng.chance(3, 4)));
    }
    // constants in the pool (one program in three) so that they occur as operands
    if rng.chance(1, 3) {
        ops.push(Op::Const(true));
        ops.push(Op::Const(false));
    }
    while ops.len() < nops {
        // two routes to one function (one step in ten): the same operands combined by the same
        // associative-commutative operation in two different bracketings and orders; a canonical
        // builder must return the same node for both
        if ops.len() >= 3 && rng.chance(1, 10) {
            let len = ops.len();
            let k = 3 + rng.below(2) as usize;
            let xs: Vec<usize> = (0..k).map(|_| pick_idx(rng, len)).collect();
            let conj = rng.coin();
            let mk = |a: usize, b: usize| if conj { Op::And(a, b) } else { Op::Or(a, b) };
            // route 1: ((x0 . x1) . x2) . x3
            let mut acc = xs[0];
            for &x in xs.iter().skip(1) {
                ops.push(mk(acc, x));
                acc = ops.len() - 1;
            }
            // route 2: x0 . (x1 . (x2 . x3)) taken from the other end
            let mut acc2 = xs[k - 1];
            for &x in xs.iter().rev().skip(1) {
                ops.push(mk(x, acc2));
                acc2 = ops.len() - 1;
            }
            continue;
        }
        // multiplexer pattern (one step in twelve, four or more variables): a three-way case split
        // on the first three variables — t = a.b, cases t.c / t.!c / !t (random polarities) — with
        // three different leaf functions over the remaining variables, assembled in two orders
        if cur_vars >= 4 && rng.chance(1, 12) {
            let (pa, pb, pc) = (rng.coin(), rng.coin(), rng.coin());
            let base = ops.len();
            ops.push(Op::Var(0, pa)); // base
            ops.push(Op::Var(1, pb)); // base+1
            ops.push(Op::Var(2, pc)); // base+2
            ops.push(Op::Var(2, !pc)); // base+3
            ops.push(Op::And(base, base + 1)); // base+4 : t
            ops.push(Op::Neg(base + 4)); // base+5 : !t
            ops.push(Op::And(base + 4, base + 2)); // base+6 : t & c
            ops.push(Op::And(base + 4, base + 3)); // base+7 : t & !c
            let hi = |rng: &mut Rng| 3 + rng.below((cur_vars - 3) as u64) as usize;
            ops.push(Op::Var(hi(rng), rng.coin())); // base+8  : s0
            ops.push(Op::Var(hi(rng), rng.coin())); // base+9  : s1
            if rng.coin() {
                ops.push(Op::Const(rng.coin())); // base+10 : s2
            } else {
                ops.push(Op::Neg(base + 9));
            }
            ops.push(Op::And(base + 5, base + 8)); // base+11 : !t & s0
            ops.push(Op::And(base + 6, base + 9)); // base+12 : t & c & s1
            ops.push(Op::And(base + 7, base + 10)); // base+13 : t & !c & s2
            // route 1: (u0 | u1) | u2 ; route 2: u2 | (u1 | u0)
            ops.push(Op::Or(base + 11, base + 12)); // base+14
            ops.push(Op::Or(base + 14, base + 13)); // base+15
            ops.push(Op::Or(base + 12, base + 11)); // base+16
            ops.push(Op::Or(base + 13, base + 16)); // base+17
            continue;
        }
        // identity patterns (one step in ten): other constructions of a function already in the
        // pool — its Shannon expansion on a variable, its resolution form (f|v)&(f|!v), and the
        // conjunction with another entry distributed over the resolution form — so that one
        // function is reached through conditioned, negated and re-assembled diagrams
        if ops.len() >= 3 && rng.chance(1, 10) {
            let len = ops.len();
            let f = pick_idx(rng, len);
            let p = pick_idx(rng, len);
            let v = rng.below(cur_vars as u64) as usize;
            let base = ops.len();
            ops.push(Op::Var(v, true)); // base
            ops.push(Op::Var(v, false)); // base+1
            ops.push(Op::Cond(f, v, true)); // base+2
            ops.push(Op::Cond(f, v, false)); // base+3
            ops.push(Op::And(base, base + 2)); // base+4
            ops.push(Op::And(base + 1, base + 3)); // base+5
            ops.push(Op::Or(base + 4, base + 5)); // base+6 : Shannon expansion == f
            ops.push(Op::Or(f, base)); // base+7
            ops.push(Op::Or(f, base + 1)); // base+8
            ops.push(Op::And(base + 7, base + 8)); // base+9 : resolution form == f
            ops.push(Op::And(p, base + 2)); // base+10 : p & f|v
            ops.push(Op::And(p, base + 7)); // base+11
            ops.push(Op::And(p, base + 8)); // base+12
            ops.push(Op::And(base + 11, base + 12)); // base+13 == p & f
            ops.push(Op::And(p, f)); // base+14 == p & f
            continue;
        }
        // guarded pair (one step in twelve, four or more variables): f = ite(a, g, h) with g over
        // two further variables and h a literal, then f conditioned on a (both values) and
        // quantified over a — next to g, h and g|h built directly.  Conditioning on the guard
        // leaves exactly the elements of one branch, the case in which trimming and compression
        // of the result matter.
        if cur_vars >= 4 && rng.chance(1, 12) {
            let vs = rng.perm(cur_vars);
            let base = ops.len();
            ops.push(Op::Var(vs[0], rng.coin())); // base   : a
            ops.push(Op::Var(vs[1], rng.coin())); // base+1
            ops.push(Op::Var(vs[2], rng.coin())); // base+2
            ops.push(match rng.below(3) {
                0 => Op::And(base + 1, base + 2),
                1 => Op::Or(base + 1, base + 2),
                _ => Op::Xor(base + 1, base + 2),
            }); // base+3 : g
            ops.push(Op::Var(vs[3], rng.coin())); // base+4 : h
            ops.push(Op::Ite(base, base + 3, base + 4)); // base+5 : f
            let av = vs[0];
            ops.push(Op::Cond(base + 5, av, true)); // base+6
            ops.push(Op::Cond(base + 5, av, false)); // base+7
            ops.push(Op::Exist(base + 5, av)); // base+8 == g | h
            ops.push(Op::Or(base + 3, base + 4)); // base+9
            continue;
        }
        // literal if-then-else (one step in twelve, three or more variables): `ite` of three
        // literals over distinct variables, next to the same function assembled from and / or
        if cur_vars >= 3 && rng.chance(1, 12) {
            let vs = rng.perm(cur_vars);
            let base = ops.len();
            ops.push(Op::Var(vs[0], rng.coin())); // base   : guard
            ops.push(Op::Var(vs[1], rng.coin())); // base+1 : then
            ops.push(Op::Var(vs[2], rng.coin())); // base+2 : else
            ops.push(Op::Ite(base, base + 1, base + 2)); // base+3
            ops.push(Op::Neg(base)); // base+4
            ops.push(Op::And(base, base + 1)); // base+5
            ops.push(Op::And(base + 4, base + 2)); // base+6
            ops.push(Op::Or(base + 5, base + 6)); // base+7 == base+3
            // … and, with a fourth variable a: g = a . ite, r = g + !a, f = r . a (== g): the
            // conjunction of a decision node with (the negation of) one of its own primes, reached
            // by two histories.  No further random draws: later steps are the same as before.
            if cur_vars >= 4 {
                ops.push(Op::Var(vs[3], true)); // base+8
                ops.push(Op::And(base + 8, base + 3)); // base+9  : g
                ops.push(Op::Neg(base + 8)); // base+10
                ops.push(Op::Or(base + 9, base + 10)); // base+11 : r
                ops.push(Op::And(base + 11, base + 8)); // base+12 : f == g
            }
            continue;
        }
        // asymmetric twins (one step in twelve): `!a . b` followed by `!b . a` for two pool entries
        // (standard triples that are mirror images of each other but denote different functions)
        if ops.len() >= 3 && rng.chance(1, 12) {
            let len = ops.len();
            let (a, b) = (pick_idx(rng, len), pick_idx(rng, len));
            let conj = rng.coin();
            let mk = |x: usize, y: usize| if conj { Op::And(x, y) } else { Op::Or(x, y) };
            ops.push(Op::Neg(a)); // len
            ops.push(Op::Neg(b)); // len+1
            ops.push(mk(len, b));
            ops.push(mk(len + 1, a));
            ops.push(mk(b, len));
            ops.push(mk(a, len + 1));
            continue;
        }
        // deep-conditioning pattern (one step in ten, four or more variables): a chain over the
        // first k variables of the order combined with a small function g over the two deepest
        // ones, so that g's node is shared by several parents (through plain and complemented
        // edges); then condition / quantify / compose on the deep variables, where g collapses
        if nvars >= 4 && rng.chance(1, 10) {
            let z = order[nvars - 1];
            let y = order[nvars - 2];
            let k = 2 + rng.below((nvars - 3) as u64) as usize;
            ops.push(Op::Var(order[0], rng.coin()));
            let mut acc = ops.len() - 1;
            for p in 1..k {
                ops.push(Op::Var(order[p], rng.coin()));
                let l = ops.len() - 1;
                ops.push(if rng.coin() { Op::And(acc, l) } else { Op::Or(acc, l) });
                acc = ops.len() - 1;
            }
            ops.push(Op::Var(y, rng.coin()));
            let ly = ops.len() - 1;
            ops.push(Op::Var(z, rng.coin()));
            let lz = ops.len() - 1;
            ops.push(match rng.below(3) {
                0 => Op::And(ly, lz),
                1 => Op::Or(ly, lz),
                _ => Op::Xor(ly, lz),
            });
            let g = ops.len() - 1;
            ops.push(match rng.below(4) {
                0 => Op::And(acc, g),
                1 => Op::Or(acc, g),
                2 => Op::Xor(acc, g),
                _ => Op::Ite(acc, g, ly),
            });
            let f = ops.len() - 1;
            let deep = if rng.chance(3, 4) { z } else { y };
            ops.push(Op::Cond(f, deep, rng.coin()));
            ops.push(Op::Cond(f, deep, rng.coin()));
            ops.push(Op::Exist(f, deep));
            if !basic {
                let mut m: Vec<Option<bool>> = vec![None; cur_vars];
                m[deep] = Some(rng.coin());
                if rng.coin() {
                    m[order[0]] = Some(rng.coin());
                }
                ops.push(Op::CondM(f, m));
                // partial models over BOTH deep variables (and one of the chain): a node that
                // ignores the variable handled first but tests the one handled next.  The choices
                // are functions of values already drawn, so that the random stream (and with it
                // every later case) is the same as before this family was added.
                let (b1, b2, b3) = (k % 2 == 0, deep == z, f % 2 == 0);
                let mut m2: Vec<Option<bool>> = vec![None; cur_vars];
                m2[y] = Some(b1);
                m2[z] = Some(b2);
                ops.push(Op::CondM(f, m2.clone()));
                if k > 1 {
                    m2[order[1 + f % (k - 1)]] = Some(b3);
                }
                m2[y] = Some(!b1);
                ops.push(Op::CondM(f, m2));
            }
            let other = pick_idx(rng, ops.len());
            ops.push(Op::Compose(f, deep, other));
            continue;
        }
        let len = ops.len();
        let i = pick_idx(rng, len);
        let j = pick_idx(rng, len);
        let k = pick_idx(rng, len);
        let x = rng.below(cur_vars as u64) as usize;
        let op = match rng.below(100) {
            0..=1 => Op::Const(rng.coin()),
            2..=13 => Op::Var(x, rng.coin()),
            14..=16 => {
                if allow_newvar && cur_vars < nvars + 2 {
                    cur_vars += 1;
                    Op::NewVar(rng.coin())
                } else {
                    Op::Var(x, rng.coin())
                }
            }
            17..=24 => Op::Neg(i),
            25..=38 => Op::And(i, j),
            39..=50 => Op::Or(i, j),
            51..=57 => Op::Xor(i, j),
            58..=64 => Op::Iff(i, j),
            65..=76 => {
                // one if-then-else in four exercises a standard-triple arm: a constant or a
                // complemented copy of another operand in second or third position, followed by
                // the application with the two diagram operands exchanged
                if rng.chance(1, 4) && ops.len() + 4 < nops + 4 {
                    let c = ops.len();
                    match rng.below(5) {
                        0 => {
                            ops.push(Op::Const(true));
                            ops.push(Op::Ite(i, j, c));
                            Op::Ite(j, i, c)
                        }
                        1 => {
                            ops.push(Op::Const(false));
                            ops.push(Op::Ite(i, j, c));
                            Op::Ite(j, i, c)
                        }
                        2 => {
                            ops.push(Op::Const(true));
                            ops.push(Op::Ite(i, c, j));
                            Op::Ite(j, c, i)
                        }
                        3 => {
                            ops.push(Op::Const(false));
                            ops.push(Op::Ite(i, c, j));
                            Op::Ite(j, c, i)
                        }
                        _ => {
                            ops.push(Op::Neg(j));
                            ops.push(Op::Ite(i, j, c));
                            Op::Ite(j, i, c)
                        }
                    }
                } else {
                    Op::Ite(i, j, k)
                }
            }
            77..=82 => Op::Cond(i, x, rng.coin()),
            83..=85 if basic => Op::And(i, j),
            96..=99 if basic => Op::Or(i, j),
            83..=85 => {
                let m: Vec<Option<bool>> = (0..cur_vars)
                    .map(|_| match rng.below(4) {
                        0 => Some(true),
                        1 => Some(false),
                        _ => None,
                    })
                    .collect();
                Op::CondM(i, m)
            }
            86..=90 => Op::Exist(i, x),
            91..=95 => Op::Compose(i, x, j),
            96..=97 => {
                let n = rng.below(4) as usize;
                Op::AndL((0..n).map(|_| pick_idx(rng, len)).collect())
            }
            _ => {
                let n = rng.below(4) as usize;
                Op::OrL((0..n).map(|_| pick_idx(rng, len)).collect())
            }
        };
        // twin operations: the same operands in another role, so that cache keys of related
        // applications meet in one builder
        let twin = if rng.chance(1, 4) {
            match &op {
                Op::Ite(a, b, c) => match rng.below(3) {
                    0 => Some(Op::Ite(*b, *a, *c)),
                    1 => Some(Op::Ite(*a, *c, *b)),
                    _ => Some(Op::Ite(*c, *b, *a)),
                },
                Op::And(a, b) => Some(Op::And(*b, *a)),
                Op::Or(a, b) => Some(Op::Or(*b, *a)),
                Op::Iff(a, b) => Some(Op::Xor(*a, *b)),
                _ => None,
            }
        } else {
            None
        };
        ops.push(op);
        if let Some(t) = twin {
            ops.push(t);
        }
    }
    Program { nvars, order, ops }
}

pub fn mk_order(order: &[usize]) -> VarOrder {
    let v: Vec<VarLabel> = order.iter().map(|&x| VarLabel::new_usize(x)).collect();
    VarOrder::new(&v)
}

/// execute the program; returns the pool (one entry per op)
pub fn exec<'a, T: IteTable<'a, BddPtr<'a>> + Default>(
    b: &'a RobddBuilder<'a, T>,
    ops: &[Op],
) -> Vec<BddPtr<'a>> {
    let mut pool: Vec<BddPtr<'a>> = Vec::new();
    for op in ops {
        let r = match op {
            Op::Const(v) => {
                if *v {
                    b.true_ptr()
                } else {
                    b.false_ptr()
                }
            }
            Op::Var(x, p) => b.var(VarLabel::new_usize(*x), *p),
            // through the polarity-specific wrappers on every other call
            Op::NewVar(p) => {
                if pool.len() % 2 == 0 {
                    b.new_var(*p).1
                } else if *p {
                    b.new_pos().1
                } else {
                    b.new_neg().1
                }
            }
            Op::Neg(i) => b.negate(pool[*i]),
            Op::And(i, j) => b.and(pool[*i], pool[*j]),
            Op::Or(i, j) => b.or(pool[*i], pool[*j]),
            Op::Xor(i, j) => b.xor(pool[*i], pool[*j]),
            Op::Iff(i, j) => b.iff(pool[*i], pool[*j]),
            Op::Ite(i, j, k) => b.ite(pool[*i], pool[*j], pool[*k]),
            Op::Cond(i, x, v) => b.condition(pool[*i], VarLabel::new_usize(*x), *v),
            Op::CondM(i, m) => b.condition_model(pool[*i], &PartialModel::from_assignments(m)),
            Op::Exist(i, x) => b.exists(pool[*i], VarLabel::new_usize(*x)),
            Op::Compose(i, x, j) => b.compose(pool[*i], VarLabel::new_usize(*x), pool[*j]),
            Op::AndL(is) => {
                let v: Vec<BddPtr> = is.iter().map(|&i| pool[i]).collect();
                b.and_lst(&v)
            }
            Op::OrL(is) => {
                let v: Vec<BddPtr> = is.iter().map(|&i| pool[i]).collect();
                b.or_lst(&v)
            }
        };
        pool.push(r);
    }
    pool
}

/// `classes[i]` = least `j <= i` with `pool[j] == pool[i]` under the builder's equality
pub fn eq_classes<'a, T: IteTable<'a, BddPtr<'a>> + Default>(
    b: &'a RobddBuilder<'a, T>,
    pool: &[BddPtr<'a>],
) -> Vec<usize> {
    (0..pool.len())
        .map(|i| (0..=i).find(|&j| b.eq(pool[j], pool[i])).unwrap())
        .collect()
}

#[derive(Clone, Copy, Debug, PartialEq)]
pub enum CacheKind {
    All,
    Lru(usize),
}

impl CacheKind {
    pub fn print(&self) -> String {
        match self {
            CacheKind::All => "all".to_string(),
            CacheKind::Lru(k) => format!("lru{}", k),
        }
    }
}

/// run a program under a cache kind and a unique-table start capacity (0 = default);
/// `f` receives the pool while the builder is alive
pub fn with_pool<R>(
    prog: &Program,
    cache: CacheKind,
    tblcap: usize,
    f: impl for<'a> FnOnce(&[BddPtr<'a>], &[usize], &VarOrder) -> R,
) -> R {
    rsdd::verif_hooks::set_table_capacity(if tblcap == 0 { None } else { Some(tblcap) });
    let order = mk_order(&prog.order);
    match cache {
        CacheKind::All => {
            let b = RobddBuilder::<AllIteTable<BddPtr>>::new(order);
            let pool = exec(&b, &prog.ops);
            let cls = eq_classes(&b, &pool);
            let r = f(&pool, &cls, b.order());
            r
        }
        CacheKind::Lru(k) => {
            rsdd::verif_hooks::set_lru_capacity(Some(k));
            let b = RobddBuilder::<LruIteTable<BddPtr>>::new(order);
            rsdd::verif_hooks::set_lru_capacity(None);
            let pool = exec(&b, &prog.ops);
            let cls = eq_classes(&b, &pool);
            let r = f(&pool, &cls, b.order());
            r
        }
    }
}

/// the `bdd` stream line for one program
pub fn bdd_line(prog: &Program, cache: CacheKind, tblcap: usize) -> String {
    let head = format!(
        "bdd n={} order={} cache={} tbl={} ops={}",
        prog.nvars,
        csv(&prog.order),
        cache.print(),
        tblcap,
        prog.ops.iter().map(|o| o.print()).collect::<Vec<_>>().join("|")
    );
    let res = guarded(|| {
        with_pool(prog, cache, tblcap, |pool, cls, _| {
            let trees: Vec<String> = pool.iter().map(|p| bdd_raw_string(*p)).collect();
            format!("res={} eq={}", trees.join("|"), csv(cls))
        })
    });
    match res {
        Ok(s) => format!("{} => {}", head, s),
        Err(e) => format!("{} => {}", head, e),
    }
}

/// parse the `ops=` field of a printed line back into a program (debugging aid: replay of a
/// stored line against the current tree)
pub fn parse_ops(s: &str) -> Vec<Op> {
    s.split('|')
        .map(|t| {
            let (name, args) = t.split_once(':').unwrap();
            let a: Vec<&str> = args.split(',').collect();
            let n = |i: usize| a[i].parse::<usize>().unwrap();
            let b = |i: usize| a[i] == "1";
            match name {
                "const" => Op::Const(b(0)),
                "var" => Op::Var(n(0), b(1)),
                "newvar" => Op::NewVar(b(0)),
                "neg" => Op::Neg(n(0)),
                "and" => Op::And(n(0), n(1)),
                "or" => Op::Or(n(0), n(1)),
                "xor" => Op::Xor(n(0), n(1)),
                "iff" => Op::Iff(n(0), n(1)),
                "ite" => Op::Ite(n(0), n(1), n(2)),
                "cond" => Op::Cond(n(0), n(1), b(2)),
                "condm" => Op::CondM(
                    n(0),
                    a[1].chars().map(|c| match c { 't' => Some(true), 'f' => Some(false), _ => None }).collect(),
                ),
                "exist" => Op::Exist(n(0), n(1)),
                "compose" => Op::Compose(n(0), n(1), n(2)),
                "andl" => Op::AndL(if args.is_empty() { vec![] } else { a.iter().map(|x| x.parse().unwrap()).collect() }),
                "orl" => Op::OrL(if args.is_empty() { vec![] } else { a.iter().map(|x| x.parse().unwrap()).collect() }),
                _ => panic!("unknown op {}", name),
            }
        })
        .collect()
}
