//! `opt` stream (C12): marginal MAP, MEU and the generic branch and bound on builder diagrams
use crate::bddgen::*;
use crate::common::*;
use crate::ringstream::f64_exact;
use crate::rng::Rng;
use rsdd::builder::bdd::RobddBuilder;
use rsdd::builder::BottomUpBuilder;
use rsdd::builder::cache::AllIteTable;
use rsdd::repr::{BddPtr, PartialModel, VarLabel, WmcParams};
use rsdd::util::semirings::{ExpectedUtility, RealSemiring};
use std::collections::HashMap;

fn pm_str(m: &PartialModel, n: usize) -> String {
    (0..n)
        .map(|x| match m.get(VarLabel::new_usize(x)) {
            None => 'n',
            Some(true) => 't',
            Some(false) => 'f',
        })
        .collect()
}

/// `kind=mapwide`: marginal MAP in a manager with more than 64 variables, on a function of five
/// of them (labels on both sides of 64, one pair `x`, `x + 64`); the oracle enumerates only the
/// variables the function mentions (all others carry normalised weights)
fn opt_wide_line(rng: &mut Rng) -> String {
    let big_n = 66 + rng.below(15) as usize;
    let x = rng.below((big_n - 64) as u64) as usize; // x + 64 < big_n
    let mut small: Vec<usize> = (0..16).filter(|v| *v != x).collect();
    rng.shuffle(&mut small);
    let involved: Vec<usize> = vec![small[0], small[1], x, x + 64, 64 + ((x + 1) % (big_n - 64))];
    let mut involved_d = involved.clone();
    involved_d.sort();
    involved_d.dedup();
    // query: a small variable first, then the large label (and sometimes a third one)
    let mut q: Vec<usize> = vec![small[0], x + 64];
    if rng.coin() {
        q.push(involved[4]);
        q.dedup();
    }
    let cubes: Vec<Vec<(usize, bool)>> = (0..2 + rng.below(3))
        .map(|_| {
            let mut c = Vec::new();
            for v in involved_d.iter() {
                if rng.chance(2, 3) {
                    c.push((*v, rng.coin()));
                }
            }
            c
        })
        .collect();
    let w: Vec<(usize, u64, u64)> = involved_d
        .iter()
        .map(|v| {
            if q.contains(v) {
                let l = rng.below(9);
                (*v, l, rng.below(9))
            } else {
                let h = rng.below(9);
                (*v, 8 - h, h)
            }
        })
        .collect();
    let head = format!(
        "opt kind=mapwide n={} vars={} cubes={} q={} w={}",
        big_n,
        csv(&involved_d),
        cubes
            .iter()
            .map(|c| c.iter().map(|(v, p)| format!("{}{}", if *p { "p" } else { "n" }, v)).collect::<Vec<_>>().join("."))
            .collect::<Vec<_>>()
            .join(";"),
        csv(&q),
        w.iter().map(|(v, l, h)| format!("{}:{}:{}", v, l, h)).collect::<Vec<_>>().join(",")
    );
    let r = guarded(|| {
        rsdd::verif_hooks::set_table_capacity(None);
        let b = RobddBuilder::<AllIteTable<BddPtr>>::new_with_linear_order(big_n);
        let mut f = b.false_ptr();
        for c in cubes.iter() {
            let mut cube = b.true_ptr();
            for (v, p) in c.iter() {
                cube = b.and(cube, b.var(VarLabel::new_usize(*v), *p));
            }
            f = b.or(f, cube);
        }
        let mut m = HashMap::new();
        for v in 0..big_n {
            m.insert(VarLabel::new_usize(v), (RealSemiring(0.5), RealSemiring(0.5)));
        }
        for (v, l, h) in w.iter() {
            m.insert(VarLabel::new_usize(*v), (RealSemiring(*l as f64 / 8.0), RealSemiring(*h as f64 / 8.0)));
        }
        let params = WmcParams::new(m);
        let vars: Vec<VarLabel> = q.iter().map(|&x| VarLabel::new_usize(x)).collect();
        let (v1, m1) = f.marginal_map(&vars, big_n, &params);
        let (v2, m2) = f.bb(&vars, big_n, &params);
        format!("d={} mm={}:{} bb={}:{}", bdd_raw_string(f), f64_exact(v1), pm_str(&m1, big_n), f64_exact(v2.0), pm_str(&m2, big_n))
    });
    format!("{} => {}", head, r.unwrap_or_else(|e| e))
}

pub fn opt_lines(rng: &mut Rng, maxvars: usize, maxops: usize) -> Vec<String> {
    // one case in eight is a wide-manager line (its own random draws come first, so the other
    // seven are generated as before only from a different point of the stream)
    if rng.chance(1, 8) {
        return vec![opt_wide_line(rng)];
    }
    let n = rng.range(2, maxvars as u64) as usize;
    let nops = rng.range(6, maxops as u64) as usize;
    let prog = gen_program(rng, n, nops, false);
    let mut out = Vec::new();
    rsdd::verif_hooks::set_table_capacity(Some(8));
    let b = RobddBuilder::<AllIteTable<BddPtr>>::new(mk_order(&prog.order));
    let pool = match guarded(|| exec(&b, &prog.ops)) {
        Ok(p) => p,
        Err(_) => return out,
    };
    // the two largest distinct diagrams
    let mut by_size: Vec<(usize, usize)> = pool.iter().enumerate().map(|(i, p)| (bdd_raw_string(*p).len(), i)).collect();
    by_size.sort_by(|a, b| b.cmp(a));
    let mut picks: Vec<usize> = Vec::new();
    for (_, i) in by_size {
        if picks.len() < 2 && !picks.iter().any(|&j| pool[j] == pool[i]) {
            picks.push(i);
        }
    }
    for &pi in picks.iter() {
        let d = pool[pi];
        // ---- marginal MAP / real branch and bound: five query sets / weight profiles per diagram
        for round in 0..5u64 {
            let k = rng.below(std::cmp::min(n, 4) as u64 + 1) as usize;
            let mut q = rng.perm(n);
            q.truncate(k);
            // weights in eighths: non-query normalised, query arbitrary in [0,1]
            // weight profiles: mostly random; one case in two a profile with exact ties between the
            // bounds of the two branches of a query variable (uniform 1/2, unit weights, symmetric
            // query weights) — the situations in which pruning on "bound <= best" vs "<" and
            // tie-breaking between branches matter
            let profile = if round < 3 { round } else { 3 + rng.below(4) };
            // rare events (profile 6, three or more query variables): both weights of every
            // query variable are k / 2^20, every other variable is (1/2, 1/2) — the candidates
            // then differ by less than the machine epsilon in absolute terms while every sum
            // stays exactly representable
            let rare = profile == 6 && q.len() >= 3;
            let den: u64 = if rare { 1 << 20 } else { 8 };
            let w: Vec<(u64, u64)> = (0..n)
                .map(|v| match profile {
                    6 if rare => {
                        if q.contains(&v) {
                            (rng.below(9), rng.below(9))
                        } else {
                            (den / 2, den / 2)
                        }
                    }
                    0 => (4, 4),
                    1 => {
                        // unit weights on the query variables only (the property's domain asks for
                        // low + high = 1 on every non-query variable)
                        if q.contains(&v) {
                            (8, 8)
                        } else {
                            (4, 4)
                        }
                    }
                    2 => {
                        if q.contains(&v) {
                            let k = rng.below(9);
                            (k, k)
                        } else {
                            (4, 4)
                        }
                    }
                    _ => {
                        if q.contains(&v) {
                            (rng.below(9), rng.below(9))
                        } else {
                            let h = rng.below(9);
                            (8 - h, h)
                        }
                    }
                })
                .collect();
            let head = format!(
                "opt kind=map den={} n={} order={} d={} q={} w={}",
                den,
                n,
                csv(&prog.order),
                bdd_raw_string(d),
                csv(&q),
                w.iter().map(|(l, h)| format!("{}:{}", l, h)).collect::<Vec<_>>().join(",")
            );
            let r = guarded(|| {
                let mut m = HashMap::new();
                for (v, (l, h)) in w.iter().enumerate() {
                    m.insert(VarLabel::new_usize(v), (RealSemiring(*l as f64 / den as f64), RealSemiring(*h as f64 / den as f64)));
                }
                let params = WmcParams::new(m);
                let vars: Vec<VarLabel> = q.iter().map(|&x| VarLabel::new_usize(x)).collect();
                let (v1, m1) = d.marginal_map(&vars, n, &params);
                let (v2, m2) = d.bb(&vars, n, &params);
                format!("mm={}:{} bb={}:{}", f64_exact(v1), pm_str(&m1, n), f64_exact(v2.0), pm_str(&m2, n))
            });
            out.push(format!("{} => {}", head, r.unwrap_or_else(|e| e)));
        }
        // ---- MEU / expected-utility branch and bound: utility variables are the last
        // one or two variables of the order, decisions come from the earlier ones
        if n >= 3 {
            let nutil = 1 + rng.below(2) as usize;
            let util: Vec<usize> = prog.order[n - nutil..].to_vec();
            let cand: Vec<usize> = prog.order[..n - nutil].to_vec();
            let kd = rng.below(std::cmp::min(cand.len(), 3) as u64 + 1) as usize;
            let mut dec = cand.clone();
            rng.shuffle(&mut dec);
            dec.truncate(kd);
            let us: Vec<u64> = util.iter().map(|_| rng.below(11)).collect();
            // utility carried by the negative literal of a utility variable (one case in two)
            let uls: Vec<u64> = util.iter().map(|_| if rng.coin() { rng.below(11) } else { 0 }).collect();
            let pr: Vec<u64> = (0..n).map(|_| rng.below(9)).collect();
            // a utility variable is either a pure reward indicator (probability component 1 on
            // both literals, value 9 below) or a chance variable that carries its reward itself
            // (probabilities k/8 and 1 - k/8)
            let ups: Vec<u64> = util.iter().map(|_| if rng.coin() { 9 } else { rng.below(9) }).collect();
            let head = format!(
                "opt kind=meu n={} order={} d={} dec={} util={} us={} uls={} ups={} pr={}",
                n,
                csv(&prog.order),
                bdd_raw_string(d),
                csv(&dec),
                csv(&util),
                csv(&us),
                csv(&uls),
                csv(&ups),
                csv(&pr)
            );
            let r = guarded(|| {
                let mut m = HashMap::new();
                for v in 0..n {
                    let wv = if dec.contains(&v) {
                        (ExpectedUtility(1.0, 0.0), ExpectedUtility(1.0, 0.0))
                    } else if let Some(i) = util.iter().position(|&u| u == v) {
                        if ups[i] == 9 {
                            (ExpectedUtility(1.0, uls[i] as f64), ExpectedUtility(1.0, us[i] as f64))
                        } else {
                            let k = ups[i] as f64 / 8.0;
                            (ExpectedUtility(1.0 - k, uls[i] as f64), ExpectedUtility(k, us[i] as f64))
                        }
                    } else {
                        (ExpectedUtility(pr[v] as f64 / 8.0, 0.0), ExpectedUtility(1.0 - pr[v] as f64 / 8.0, 0.0))
                    };
                    m.insert(VarLabel::new_usize(v), wv);
                }
                let params = WmcParams::new(m);
                let vars: Vec<VarLabel> = dec.iter().map(|&x| VarLabel::new_usize(x)).collect();
                let (v1, m1) = d.meu(&vars, n, &params);
                let (v2, m2) = d.bb(&vars, n, &params);
                format!(
                    "meu={},{}:{} bb={},{}:{}",
                    f64_exact(v1.0), f64_exact(v1.1), pm_str(&m1, n),
                    f64_exact(v2.0), f64_exact(v2.1), pm_str(&m2, n)
                )
            });
            out.push(format!("{} => {}", head, r.unwrap_or_else(|e| e)));
        }
    }
    out
}
