//! `cli` stream (C19): the three command-line tools built from the working tree
use crate::cnfgen::*;
use crate::common::*;
use crate::rng::Rng;
use std::process::Command;

fn esc(s: &str) -> String {
    s.replace('\n', "\\n").replace(' ', "\\s")
}

fn gen_sexpr(rng: &mut Rng, names: &[String], depth: usize) -> String {
    if depth == 0 || rng.chance(1, 4) {
        return format!("(Var {})", rng.pick(names));
    }
    let mut s = |rng: &mut Rng| gen_sexpr(rng, names, depth - 1);
    match rng.below(6) {
        0 => format!("(Not {})", s(rng)),
        1 => format!("(And {} {})", s(rng), s(rng)),
        2 => format!("(Or {} {})", s(rng), s(rng)),
        3 => format!("(Iff {} {})", s(rng), s(rng)),
        4 => format!("(Xor {} {})", s(rng), s(rng)),
        _ => format!("(Ite {} {} {})", s(rng), s(rng), s(rng)),
    }
}

/// if-then-else-heavy formulas: two or three `Ite` terms over rotations of the same three small
/// sub-terms, joined by a binary connective — the shape in which related standard triples
/// (`ite(f,g,1)`, `ite(g,1,f)`, …) meet in one apply cache
fn gen_sexpr_ite(rng: &mut Rng, names: &[String]) -> String {
    let mut small = |rng: &mut Rng| match rng.below(4) {
        0 | 1 => format!("(Var {})", rng.pick(names)),
        2 => format!("(Not (Var {}))", rng.pick(names)),
        _ => gen_sexpr(rng, names, 1),
    };
    let t: Vec<String> = (0..3).map(|_| small(rng)).collect();
    let mut ite = |rng: &mut Rng| {
        let p = rng.perm(3);
        let neg = |s: &String, n: bool| if n { format!("(Not {})", s) } else { s.clone() };
        format!(
            "(Ite {} {} {})",
            neg(&t[p[0]], rng.chance(1, 5)),
            neg(&t[p[1]], rng.chance(1, 5)),
            neg(&t[p[2]], rng.chance(1, 5))
        )
    };
    let k = 3 + rng.below(3) as usize;
    let mut acc = ite(rng);
    for _ in 1..k {
        // mostly further if-then-else terms; sometimes a plain connective of two of the sub-terms
        // (`Or a b` is `ite(a, 1, b)`, `And a b` is `ite(a, b, 0)`)
        let nxt = if rng.chance(1, 4) {
            let p = rng.perm(3);
            format!("({} {} {})", if rng.coin() { "Or" } else { "And" }, t[p[0]], t[p[1]])
        } else {
            ite(rng)
        };
        let op = *rng.pick(&["And", "Or", "Xor", "Iff"]);
        acc = if rng.coin() { format!("({} {} {})", op, acc, nxt) } else { format!("({} {} {})", op, nxt, acc) };
    }
    acc
}

fn gen_formula(rng: &mut Rng, names: &[String]) -> String {
    if rng.chance(1, 2) {
        gen_sexpr_ite(rng, names)
    } else {
        gen_sexpr(rng, names, 4)
    }
}

fn run(bin: &str, args: &[&str]) -> Result<String, String> {
    match Command::new(bin).args(args).output() {
        Ok(o) => {
            if o.status.success() {
                Ok(String::from_utf8_lossy(&o.stdout).to_string())
            } else {
                Err(format!("exit:{}", o.status.code().unwrap_or(-1)))
            }
        }
        Err(e) => Err(format!("spawn:{}", e)),
    }
}

pub fn cli_lines(rng: &mut Rng, idx: u64, maxvars: usize, bindir: &str, scratch: &str) -> Vec<String> {
    let mut out = Vec::new();
    let tag = format!("{}/{}_{}", scratch, std::process::id(), idx);
    let pool = ["a", "b", "c", "x1", "x10", "x2", "B", "zeta"];
    match idx % 3 {
        0 => {
            // weighted_model_count, single-count mode
            let k = rng.range(1, std::cmp::min(maxvars, 6) as u64) as usize;
            let mut names: Vec<String> = pool.iter().map(|s| s.to_string()).collect();
            rng.shuffle(&mut names);
            names.truncate(k);
            let text = gen_formula(rng, &names);
            // weights in halves (exact, short decimal expansions); sometimes one extra name
            let mut wnames = names.clone();
            if rng.chance(1, 5) {
                wnames.push("w_extra".to_string());
            }
            let mut ws: Vec<(String, u64, u64)> = wnames.iter().map(|nm| (nm.clone(), rng.below(7), rng.below(7))).collect();
            // weight files as users write them: one line in three has probabilities only
            // (low + high = 1), one in four leaves a variable of the formula out of the file (the
            // tool then gives it the weights (0, 0)).  Derived from values already drawn.
            let sum: u64 = ws.iter().map(|(_, l, h)| l + h).sum();
            if sum % 3 == 0 {
                for w in ws.iter_mut() {
                    w.1 %= 3;
                    w.2 = 2 - w.1;
                }
            }
            if sum % 4 == 1 && k >= 2 {
                ws.remove((sum as usize / 4) % k);
            }
            // a configured order names exactly the variables the tool knows: those of the formula
            // and those of the weights file
            let known: Vec<String> = wnames
                .iter()
                .filter(|nm| text.contains(&format!("(Var {})", nm)) || ws.iter().any(|(w, _, _)| w == *nm))
                .cloned()
                .collect();
            let order: Option<Vec<String>> = if rng.coin() {
                let mut o = known.clone();
                rng.shuffle(&mut o);
                Some(o)
            } else {
                None
            };
            let ffile = format!("{}.sexp", tag);
            let wfile = format!("{}.weights.json", tag);
            let cfile = format!("{}.config.json", tag);
            std::fs::write(&ffile, &text).unwrap();
            let wjson = format!(
                "{{{}}}",
                ws.iter()
                    .map(|(nm, l, h)| format!("\"{}\":{{\"low\":{},\"high\":{}}}", nm, *l as f64 / 2.0, *h as f64 / 2.0))
                    .collect::<Vec<_>>()
                    .join(",")
            );
            std::fs::write(&wfile, &wjson).unwrap();
            let mut args: Vec<&str> = vec!["-f", &ffile, "-w", &wfile];
            if let Some(o) = &order {
                let cj = format!("{{\"order\":[{}]}}", o.iter().map(|s| format!("\"{}\"", s)).collect::<Vec<_>>().join(","));
                std::fs::write(&cfile, cj).unwrap();
                args.push("-c");
                args.push(&cfile);
            }
            let r = run(&format!("{}/weighted_model_count", bindir), &args);
            let head = format!(
                "cli kind=wmc text={} weights={} order={}",
                esc(&text),
                ws.iter().map(|(nm, l, h)| format!("{}:{}:{}", nm, l, h)).collect::<Vec<_>>().join(","),
                order.as_ref().map(|o| o.join(",")).unwrap_or_else(|| "none".to_string())
            );
            out.push(format!("{} => stdout={}", head, esc(&r.unwrap_or_else(|e| format!("panic:{}", e)))));
            for f in [&ffile, &wfile, &cfile] {
                let _ = std::fs::remove_file(f);
            }
        }
        1 => {
            // bottomup_cnf_to_bdd
            let mut raw = gen_cnf(rng, maxvars, 2 * maxvars, false);
            if raw.is_empty() {
                raw.push(vec![(0, rng.coin())]);
            }
            let nv = std::cmp::max(1, raw.iter().flat_map(|c| c.iter().map(|(v, _)| v + 1)).max().unwrap_or(0));
            let mut text = format!("p cnf {} {}\n", nv, raw.len());
            for c in raw.iter() {
                for (v, p) in c.iter() {
                    text.push_str(&format!("{}{} ", if *p { "" } else { "-" }, v + 1));
                }
                text.push_str("0\n");
            }
            let force = rng.chance(1, 3);
            let ffile = format!("{}.cnf", tag);
            std::fs::write(&ffile, &text).unwrap();
            let r = run(
                &format!("{}/bottomup_cnf_to_bdd", bindir),
                &["-f", &ffile, "--order", if force { "auto_force" } else { "auto_minfill" }],
            );
            let head = format!("cli kind=cnf2bdd text={} order={}", esc(&text), if force { "force" } else { "minfill" });
            out.push(format!("{} => stdout={}", head, esc(r.unwrap_or_else(|e| format!("panic:{}", e)).trim())));
            let _ = std::fs::remove_file(&ffile);
        }
        _ => {
            // bottomup_formula_to_bdd
            let k = rng.range(1, std::cmp::min(maxvars, 6) as u64) as usize;
            let mut names: Vec<String> = pool.iter().map(|s| s.to_string()).collect();
            rng.shuffle(&mut names);
            names.truncate(k);
            let text = gen_formula(rng, &names);
            let ffile = format!("{}.sexp", tag);
            let cfile = format!("{}.config.json", tag);
            std::fs::write(&ffile, &text).unwrap();
            // a manual order must list exactly the variables of the formula
            let mut used: Vec<String> = names.iter().filter(|nm| text.contains(&format!("(Var {})", nm))).cloned().collect();
            let manual = rng.coin();
            let mut args: Vec<&str> = vec!["-f", &ffile];
            let order_s;
            if manual {
                rng.shuffle(&mut used);
                let cj = format!("{{\"order\":[{}]}}", used.iter().map(|s| format!("\"{}\"", s)).collect::<Vec<_>>().join(","));
                std::fs::write(&cfile, cj).unwrap();
                args.extend_from_slice(&["--ordering", "manual", "-c", &cfile]);
                order_s = used.join(",");
            } else {
                args.extend_from_slice(&["--ordering", "linear"]);
                order_s = "linear".to_string();
            }
            let r = run(&format!("{}/bottomup_formula_to_bdd", bindir), &args);
            let head = format!("cli kind=formula2bdd text={} order={}", esc(&text), order_s);
            out.push(format!("{} => stdout={}", head, esc(r.unwrap_or_else(|e| format!("panic:{}", e)).trim())));
            let _ = std::fs::remove_file(&ffile);
            let _ = std::fs::remove_file(&cfile);
        }
    }
    out
}
