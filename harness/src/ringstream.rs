//! `ring` stream (C13): every shipped weight type on triples of exactly representable values
use crate::common::*;
use crate::rng::Rng;
use rsdd::constants::primes;
use rsdd::util::semirings::*;

/// exact printing of an f64 that holds a dyadic rational: `num/den`
pub fn f64_exact(x: f64) -> String {
    if x == 0.0 {
        return "0/1".to_string();
    }
    if !x.is_finite() {
        return format!("nonfinite:{}", x);
    }
    let bits = x.to_bits();
    let sign = if (bits >> 63) == 1 { -1i128 } else { 1 };
    let exp = ((bits >> 52) & 0x7ff) as i64;
    let frac = bits & 0xf_ffff_ffff_ffff;
    let (mut m, mut e) = if exp == 0 {
        (frac as i128, -1074i64)
    } else {
        ((frac | (1u64 << 52)) as i128, exp - 1075)
    };
    while m % 2 == 0 && e < 0 {
        m /= 2;
        e += 1;
    }
    if e >= 0 {
        if e > 60 {
            return format!("toolarge:{}", x);
        }
        format!("{}/1", sign * (m << e))
    } else {
        if -e > 100 {
            return format!("toosmall:{}", x);
        }
        format!("{}/{}", sign * m, 1u128 << (-e))
    }
}

fn ord_str(o: Option<std::cmp::Ordering>) -> &'static str {
    match o {
        None => "none",
        Some(std::cmp::Ordering::Less) => "lt",
        Some(std::cmp::Ordering::Equal) => "eq",
        Some(std::cmp::Ordering::Greater) => "gt",
    }
}

fn ff_line<const P: u128>(a: u128, b: u128, c: u128) -> String {
    let head = format!("ring type=ff P={} a={} b={} c={}", P, a, b, c);
    let r = guarded(|| {
        let (x, y, z) = (
            FiniteField::<P>::new(a),
            FiniteField::<P>::new(b),
            FiniteField::<P>::new(c),
        );
        let v = |f: FiniteField<P>| f.value().to_string();
        format!(
            "new={},{},{} add={} mul={} sub={} neg={} addab_c={} adda_bc={} mulab_c={} mula_bc={} mula_bpc={} ab_p_ac={} zero={} one={} subadd={}",
            v(x), v(y), v(z),
            v(x + y), v(x * y), v(x - y), v(x.negate()),
            v((x + y) + z), v(x + (y + z)), v((x * y) * z), v(x * (y * z)),
            v(x * (y + z)), v((x * y) + (x * z)),
            v(FiniteField::<P>::zero()), v(FiniteField::<P>::one()),
            v((x - y) + y)
        )
    });
    format!("{} => {}", head, r.unwrap_or_else(|e| e))
}

pub fn ff_dispatch(p_idx: usize, a: u128, b: u128, c: u128) -> String {
    match p_idx {
        0 => ff_line::<{ primes::U32_TINY }>(a, b, c),
        1 => ff_line::<{ primes::U32_SMALL }>(a, b, c),
        2 => ff_line::<{ primes::U64_LARGEST }>(a, b, c),
        3 => ff_line::<{ primes::U128_LARGE_1 }>(a, b, c),
        4 => ff_line::<{ primes::U128_LARGE_2 }>(a, b, c),
        5 => ff_line::<{ primes::U128_LARGE_3 }>(a, b, c),
        6 => ff_line::<{ primes::U128_LARGE_4 }>(a, b, c),
        7 => ff_line::<{ EXTRA_MODULI[0] }>(a, b, c),
        8 => ff_line::<{ EXTRA_MODULI[1] }>(a, b, c),
        _ => ff_line::<{ EXTRA_MODULI[2] }>(a, b, c),
    }
}

/// `FiniteField<P>` is generic in `P`: three moduli the crate does NOT export, spread over
/// (2^96, 2^127) where every intermediate of the overflow-free multiplication is widest
pub const EXTRA_MODULI: [u128; 3] = [(1u128 << 96) + 61, (1u128 << 107) - 1, (1u128 << 126) - 137];

pub const PRIMES: [u128; 10] = [
    primes::U32_TINY,
    primes::U32_SMALL,
    primes::U64_LARGEST,
    primes::U128_LARGE_1,
    primes::U128_LARGE_2,
    primes::U128_LARGE_3,
    primes::U128_LARGE_4,
    EXTRA_MODULI[0],
    EXTRA_MODULI[1],
    EXTRA_MODULI[2],
];

/// a value with exactly `bits` significant bits (reduced modulo `p`)
fn with_bits(rng: &mut Rng, bits: u32, p: u128) -> u128 {
    if bits == 0 {
        return 0;
    }
    let r = ((rng.next() as u128) << 64) | rng.next() as u128;
    let top = 1u128 << (bits - 1);
    ((r & (top - 1)) | top) % p
}

fn residue(rng: &mut Rng, p: u128) -> u128 {
    let pbits = 128 - p.leading_zeros();
    match rng.below(12) {
        10 | 11 => {
            let bits = 1 + rng.below(pbits as u64) as u32;
            with_bits(rng, bits, p)
        }
        0 => 0,
        1 => 1,
        2 => 2,
        3 => p / 2,
        4 => p / 2 + 1,
        5 => p - 2,
        6 => p - 1,
        7 => {
            let small = rng.below(16) as u128;
            // half of these: values with zero 32-bit limbs below a non-zero one (k << 32, 1 << 64,
            // (k << 64) + k, …): digit-wise multiplication schemes treat zero digits specially
            match small % 4 {
                0 => small,
                1 => ((small + 1) << 32) % p,
                2 => (1u128 << 64) % p,
                _ => (((small + 1) << 64) + small + 1) % p,
            }
        }
        _ => (((rng.next() as u128) << 64) | rng.next() as u128) % p,
    }
}

/// dyadic value k/8 with small k (exact in f64 under a handful of + and *)
fn dyadic(rng: &mut Rng) -> (f64, String) {
    let k = rng.below(33) as i64 - 8;
    (k as f64 / 8.0, format!("{}/8", k))
}

pub fn ring_lines(rng: &mut Rng, idx: u64) -> Vec<String> {
    let mut out = Vec::new();
    match idx % 6 {
        0 | 1 => {
            let pi = if rng.chance(1, 6) { 7 + rng.below(3) as usize } else { rng.below(7) as usize };
            let p = PRIMES[pi];
            let (mut a, mut b, c) = (residue(rng, p), residue(rng, p), residue(rng, p));
            // directed family: operand sizes straddling the point where a*b stops fitting in a u128
            let pbits = 128 - p.leading_zeros();
            if pbits > 64 && rng.chance(1, 3) {
                let total = 126 + rng.below(6) as u32; // bit lengths summing to 126..131
                let la = std::cmp::max(total.saturating_sub(pbits), 1) + rng.below((2 * pbits - total + 1) as u64) as u32;
                let la = std::cmp::min(la, pbits);
                let lb = std::cmp::min(total - la, pbits);
                a = with_bits(rng, la, p);
                b = with_bits(rng, lb, p);
                if rng.coin() {
                    std::mem::swap(&mut a, &mut b);
                }
            }
            out.push(ff_dispatch(pi, a, b, c));
        }
        2 => {
            let ((a, sa), (b, sb), (c, sc)) = (dyadic(rng), dyadic(rng), dyadic(rng));
            let head = format!("ring type=real a={} b={} c={}", sa, sb, sc);
            let r = guarded(|| {
                let (x, y, z) = (RealSemiring(a), RealSemiring(b), RealSemiring(c));
                let v = |f: RealSemiring| f64_exact(f.0);
                format!(
                    "add={} mul={} sub={} join={} meet={} choose={} choose2={} cmp={} addab_c={} adda_bc={} mulab_c={} mula_bc={} mula_bpc={} ab_p_ac={} zero={} one={} subadd={}",
                    v(x + y), v(x * y), v(x - y), v(x.join(&y)), v(x.meet(&y)),
                    v(BBSemiring::choose(&x, &y)), v(BBRing::choose(&x, &y)), ord_str(x.partial_cmp(&y)),
                    v((x + y) + z), v(x + (y + z)), v((x * y) * z), v(x * (y * z)),
                    v(x * (y + z)), v((x * y) + (x * z)),
                    v(RealSemiring::zero()), v(RealSemiring::one()), v((x - y) + y)
                )
            });
            out.push(format!("{} => {}", head, r.unwrap_or_else(|e| e)));
        }
        3 => {
            let vals: Vec<(f64, String)> = (0..6).map(|_| dyadic(rng)).collect();
            let head = format!(
                "ring type=eu a={},{} b={},{} c={},{}",
                vals[0].1, vals[1].1, vals[2].1, vals[3].1, vals[4].1, vals[5].1
            );
            let r = guarded(|| {
                let x = ExpectedUtility(vals[0].0, vals[1].0);
                let y = ExpectedUtility(vals[2].0, vals[3].0);
                let z = ExpectedUtility(vals[4].0, vals[5].0);
                let v = |f: ExpectedUtility| format!("{},{}", f64_exact(f.0), f64_exact(f.1));
                format!(
                    "add={} mul={} sub={} join={} meet={} choose={} choose2={} cmp={} addab_c={} adda_bc={} mulab_c={} mula_bc={} mula_bpc={} ab_p_ac={} zero={} one={} subadd={}",
                    v(x + y), v(x * y), v(x - y), v(x.join(&y)), v(x.meet(&y)),
                    v(BBSemiring::choose(&x, &y)), v(BBRing::choose(&x, &y)), ord_str(x.partial_cmp(&y)),
                    v((x + y) + z), v(x + (y + z)), v((x * y) * z), v(x * (y * z)),
                    v(x * (y + z)), v((x * y) + (x * z)),
                    v(ExpectedUtility::zero()), v(ExpectedUtility::one()), v((x - y) + y)
                )
            });
            out.push(format!("{} => {}", head, r.unwrap_or_else(|e| e)));
        }
        4 => {
            let vals: Vec<(f64, String)> = (0..6).map(|_| dyadic(rng)).collect();
            let head = format!(
                "ring type=cx a={},{} b={},{} c={},{}",
                vals[0].1, vals[1].1, vals[2].1, vals[3].1, vals[4].1, vals[5].1
            );
            let r = guarded(|| {
                let x = Complex { re: vals[0].0, im: vals[1].0 };
                let y = Complex { re: vals[2].0, im: vals[3].0 };
                let z = Complex { re: vals[4].0, im: vals[5].0 };
                let v = |f: Complex| format!("{},{}", f64_exact(f.re), f64_exact(f.im));
                format!(
                    "add={} mul={} sub={} addab_c={} adda_bc={} mulab_c={} mula_bc={} mula_bpc={} ab_p_ac={} zero={} one={} subadd={}",
                    v(x + y), v(x * y), v(x - y),
                    v((x + y) + z), v(x + (y + z)), v((x * y) * z), v(x * (y * z)),
                    v(x * (y + z)), v((x * y) + (x * z)),
                    v(Complex::zero()), v(Complex::one()), v((x - y) + y)
                )
            });
            out.push(format!("{} => {}", head, r.unwrap_or_else(|e| e)));
            // units times a value whose components differ by many binary orders of magnitude:
            // every factor, partial product and result is exactly representable, so the identities
            // must hold to the last bit (multiplication schemes with intermediate sums need not)
            let (p, q): (i32, i32) = match rng.below(4) {
                0 => (53, 0),
                1 => (30, -30),
                2 => (0, 52),
                _ => (40, 2),
            };
            let (sr, si) = (if rng.coin() { 1.0 } else { -1.0 }, if rng.coin() { 1.0 } else { -1.0 });
            let x = Complex { re: sr * 2f64.powi(p) + if p == 53 { 0.0 } else { 0.0 }, im: si * 2f64.powi(q) };
            let head = format!("ring type=cxu p={} q={} sr={} si={}", p, q, sr as i32, si as i32);
            let r = guarded(|| {
                let v = |f: Complex| format!("{},{}", f64_exact(f.re), f64_exact(f.im));
                let one = Complex::one();
                let i = Complex { re: 0.0, im: 1.0 };
                let m1 = Complex { re: -1.0, im: 0.0 };
                let two = Complex { re: 2.0, im: 0.0 };
                format!(
                    "x={} x1={} 1x={} xi={} ix={} xm={} x2={} 2x={}",
                    v(x), v(x * one), v(one * x), v(x * i), v(i * x), v(x * m1), v(x * two), v(two * x)
                )
            });
            out.push(format!("{} => {}", head, r.unwrap_or_else(|e| e)));
        }
        _ => {
            // booleans (exhaustive: 8 triples) and polynomials over a small finite field
            if rng.chance(1, 4) {
                let t = rng.below(8);
                let (a, b, c) = (t & 1 == 1, t & 2 == 2, t & 4 == 4);
                let head = format!("ring type=bool a={} b={} c={}", a as u8, b as u8, c as u8);
                let (x, y, z) = (BooleanSemiring(a), BooleanSemiring(b), BooleanSemiring(c));
                let v = |f: BooleanSemiring| (f.0 as u8).to_string();
                out.push(format!(
                    "{} => add={} mul={} addab_c={} adda_bc={} mulab_c={} mula_bc={} mula_bpc={} ab_p_ac={} zero={} one={}",
                    head, v(x + y), v(x * y),
                    v((x + y) + z), v(x + (y + z)), v((x * y) * z), v(x * (y * z)),
                    v(x * (y + z)), v((x * y) + (x * z)),
                    v(BooleanSemiring::zero()), v(BooleanSemiring::one())
                ));
            } else {
                type F = FiniteField<{ primes::U32_TINY }>;
                let mk = |rng: &mut Rng| -> (Polynomial<F>, String) {
                    // polynomials are built from zero/one/add/mul only through public fields
                    let len = match rng.below(8) {
                        0 => 0usize,
                        1 => 1,
                        2 => MAX_COEFFS,
                        3 => MAX_COEFFS - 1,
                        4 => 17,
                        _ => 1 + rng.below(4) as usize,
                    };
                    let mut coeffs = [F::zero(); MAX_COEFFS];
                    let mut cs = Vec::new();
                    for c in coeffs.iter_mut().take(len) {
                        let v = rng.below(5) as u128;
                        *c = F::new(v);
                        cs.push(v);
                    }
                    (Polynomial { coefficients: coeffs, len }, format!("{}:{}", len, csv(&cs)))
                };
                let ((x, sx), (y, sy), (z, sz)) = (mk(rng), mk(rng), mk(rng));
                let head = format!("ring type=poly P={} a={} b={} c={}", primes::U32_TINY, sx, sy, sz);
                let r = guarded(|| {
                    let v = |p: Polynomial<F>| {
                        let cs: Vec<u128> = p.coefficients.iter().map(|c| c.value()).collect();
                        format!("{}:{}", p.len, csv(&cs))
                    };
                    format!(
                        "add={} mul={} addab_c={} adda_bc={} mulab_c={} mula_bc={} mula_bpc={} ab_p_ac={} zero={} one={}",
                        v(x + y), v(x * y),
                        v((x + y) + z), v(x + (y + z)), v((x * y) * z), v(x * (y * z)),
                        v(x * (y + z)), v((x * y) + (x * z)),
                        v(Polynomial::<F>::zero()), v(Polynomial::<F>::one())
                    )
                });
                out.push(format!("{} => {}", head, r.unwrap_or_else(|e| e)));
            }
        }
    }
    out
}
