//! CNF generation shared by the CNF-based streams
use crate::rng::Rng;
use rsdd::repr::{Cnf, Literal, VarLabel};

pub type RawCnf = Vec<Vec<(usize, bool)>>;

/// CNFs with unit, empty, duplicate-literal and tautological clauses and unused variable
/// indices at controlled rates
pub fn gen_cnf(rng: &mut Rng, maxvars: usize, maxclauses: usize, allow_empty_clause: bool) -> RawCnf {
    let n = rng.range(1, maxvars as u64) as usize;
    let nclauses = if rng.chance(1, 25) { 0 } else { rng.range(1, maxclauses as u64) as usize };
    // sometimes leave the highest indices (or a middle index) unused
    let skip: Option<usize> = if rng.chance(1, 6) { Some(rng.below(n as u64) as usize) } else { None };
    let mut out = Vec::new();
    for _ in 0..nclauses {
        let len = match rng.below(20) {
            0..=3 => 1,
            4..=10 => 2,
            11..=16 => 3,
            _ => 4,
        };
        let mut c = Vec::new();
        for _ in 0..len {
            let mut v = rng.below(n as u64) as usize;
            if Some(v) == skip {
                v = (v + 1) % n;
            }
            c.push((v, rng.coin()));
        }
        // duplicate or complementary literal
        if !c.is_empty() && rng.chance(1, 8) {
            let (v, p) = c[rng.below(c.len() as u64) as usize];
            c.push((v, if rng.coin() { p } else { !p }));
        }
        out.push(c);
    }
    // an empty clause in about one CNF out of ten
    if allow_empty_clause && rng.chance(1, 10) {
        let at = rng.below(out.len() as u64 + 1) as usize;
        out.insert(at, Vec::new());
    }
    out
}

pub fn to_cnf(raw: &RawCnf) -> Cnf {
    let cl: Vec<Vec<Literal>> = raw
        .iter()
        .map(|c| c.iter().map(|(v, p)| Literal::new(VarLabel::new_usize(*v), *p)).collect())
        .collect();
    Cnf::new(&cl)
}

pub fn print_lits(c: &[(usize, bool)]) -> String {
    c.iter().map(|(v, p)| format!("{}{}", if *p { 'p' } else { 'n' }, v)).collect::<Vec<_>>().join(",")
}

/// `<count>:<clause>;<clause>…` (a clause is a comma-separated list of `p<label>`/`n<label>`)
pub fn print_raw(raw: &RawCnf) -> String {
    format!("{}:{}", raw.len(), raw.iter().map(|c| print_lits(c)).collect::<Vec<_>>().join(";"))
}

pub fn print_cnf(cnf: &Cnf) -> String {
    let raw: RawCnf = cnf
        .clauses()
        .iter()
        .map(|c| c.iter().map(|l| (l.label().value_usize(), l.polarity())).collect())
        .collect();
    print_raw(&raw)
}
