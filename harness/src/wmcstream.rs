//! `wmc` stream (C07 BDD part, C08, C11 first claims): counts, smoothing and semantic hashes of
//! diagrams taken from builder pools
use crate::bddgen::*;
use crate::common::*;
use crate::ringstream::{f64_exact, PRIMES};
use crate::rng::Rng;
use rsdd::builder::bdd::RobddBuilder;
use rsdd::builder::cache::AllIteTable;
use rsdd::constants::primes;
use rsdd::repr::{create_semantic_hash_map, BddPtr, DDNNFPtr, VarLabel, WmcParams};
use rsdd::util::semirings::{Complex, ExpectedUtility, FiniteField, Polynomial, RealSemiring, Semiring};
use std::collections::HashMap;

fn ff_params<const P: u128>(w: &[(u128, u128)]) -> WmcParams<FiniteField<P>> {
    let mut m = HashMap::new();
    for (i, (l, h)) in w.iter().enumerate() {
        m.insert(VarLabel::new_usize(i), (FiniteField::<P>::new(*l), FiniteField::<P>::new(*h)));
    }
    WmcParams::new(m)
}

fn wmc_ff<const P: u128>(d: BddPtr, w: &[(u128, u128)]) -> u128 {
    d.unsmoothed_wmc(&ff_params::<P>(w)).value()
}

fn sem_hash<const P: u128>(d: BddPtr, n: usize) -> (u128, Vec<(u128, u128)>) {
    let map = create_semantic_hash_map::<P>(n);
    let ws: Vec<(u128, u128)> = (0..n)
        .map(|i| {
            let (l, h) = map.var_weight(VarLabel::new_usize(i));
            (l.value(), h.value())
        })
        .collect();
    (d.semantic_hash(&map).value(), ws)
}

macro_rules! by_prime {
    ($idx:expr, $f:ident, $($arg:expr),*) => {
        match $idx {
            0 => $f::<{ primes::U32_TINY }>($($arg),*),
            1 => $f::<{ primes::U32_SMALL }>($($arg),*),
            2 => $f::<{ primes::U64_LARGEST }>($($arg),*),
            3 => $f::<{ primes::U128_LARGE_1 }>($($arg),*),
            4 => $f::<{ primes::U128_LARGE_2 }>($($arg),*),
            5 => $f::<{ primes::U128_LARGE_3 }>($($arg),*),
            6 => $f::<{ primes::U128_LARGE_4 }>($($arg),*),
            7 => $f::<{ crate::ringstream::EXTRA_MODULI[0] }>($($arg),*),
            8 => $f::<{ crate::ringstream::EXTRA_MODULI[1] }>($($arg),*),
            _ => $f::<{ crate::ringstream::EXTRA_MODULI[2] }>($($arg),*),
        }
    };
}

fn pairs(w: &[(u128, u128)]) -> String {
    w.iter().map(|(l, h)| format!("{}:{}", l, h)).collect::<Vec<_>>().join(",")
}

pub fn wmc_lines(rng: &mut Rng, maxvars: usize, maxops: usize) -> Vec<String> {
    let n = rng.range(1, maxvars as u64) as usize;
    let nops = rng.range(4, maxops as u64) as usize;
    let prog = gen_program(rng, n, nops, false);
    let pi = if rng.chance(1, 6) { 7 + rng.below(3) as usize } else { rng.below(7) as usize };
    let p = PRIMES[pi];
    // normalised field weights, arbitrary small integer weights, dyadic real weights
    // normalised weights: random, or (one case in three) from the boundary family
    // (P-1,2), (2,P-1), (1,0), (0,1), ((P+1)/2,(P+1)/2) whose partial sums hit 0, P-1, P exactly
    let boundary = rng.chance(1, 3);
    let wn: Vec<(u128, u128)> = (0..n)
        .map(|_| {
            if boundary {
                match rng.below(5) {
                    0 => (p - 1, 2),
                    1 => (2, p - 1),
                    2 => (1, 0),
                    3 => (0, 1),
                    _ => ((p + 1) / 2, (p + 1) / 2),
                }
            } else {
                let h = 2 + (((rng.next() as u128) << 64 | rng.next() as u128) % (p - 2));
                ((p + 1 - h) % p, h)
            }
        })
        .collect();
    let wa: Vec<(u128, u128)> = (0..n).map(|_| (rng.range(0, 5) as u128, rng.range(0, 5) as u128)).collect();
    let wr: Vec<u64> = (0..n).map(|_| rng.below(9)).collect();
    // complex weights in quarters, low + high = 1 + 0i; about half of the variables purely real
    let wc: Vec<(i64, i64)> = (0..n).map(|_| (rng.below(9) as i64 - 2, if rng.coin() { 0 } else { rng.below(7) as i64 - 3 })).collect();

    // expected-utility weights, normalised: low = (1 - k/8, -u), high = (k/8, u); k = 0 and k = 8
    // (probability exactly 0 or 1 with a non-zero utility) occur on purpose
    let weu: Vec<(u64, i64)> = (0..n)
        .map(|_| (if rng.chance(1, 3) { [0u64, 8][rng.below(2) as usize] } else { rng.below(9) }, rng.below(7) as i64 - 3))
        .collect();
    // polynomial weights (1 - x^d, x^d): degrees are distinct powers of two on the first five
    // variables (products reach every degree up to 31 = MAX_COEFFS - 1) and small otherwise
    let wpd: Vec<usize> = {
        let mut ds = vec![16usize, 8, 4, 2, 1];
        rng.shuffle(&mut ds);
        (0..n).map(|v| if v < 5 { ds[v] } else { rng.below(4) as usize }).collect()
    };

    let mut out = Vec::new();
    rsdd::verif_hooks::set_table_capacity(Some(8));
    let order = mk_order(&prog.order);
    let b = RobddBuilder::<AllIteTable<BddPtr>>::new(order);
    let pool = match guarded(|| exec(&b, &prog.ops)) {
        Ok(p) => p,
        Err(_) => return out,
    };
    // the three largest distinct diagrams of the pool, plus one random entry
    let mut picks: Vec<usize> = Vec::new();
    let mut by_size: Vec<(usize, usize)> = pool.iter().enumerate().map(|(i, p)| (bdd_raw_string(*p).len(), i)).collect();
    by_size.sort_by(|a, b| b.cmp(a));
    for (_, i) in by_size {
        if picks.len() < 3 && !picks.iter().any(|&j| pool[j] == pool[i]) {
            picks.push(i);
        }
    }
    picks.push(rng.below(pool.len() as u64) as usize);
    for &i in picks.iter() {
        let d = pool[i];
        let head = format!(
            "wmc n={} order={} d={} P={} wn={} wa={} wr={} wc={} wpd={} weu={}",
            n,
            csv(&prog.order),
            bdd_raw_string(d),
            p,
            pairs(&wn),
            pairs(&wa),
            csv(&wr),
            wc.iter().map(|(a, b)| format!("{}:{}", a, b)).collect::<Vec<_>>().join(","),
            csv(&wpd),
            weu.iter().map(|(k, u)| format!("{}:{}", k, u)).collect::<Vec<_>>().join(",")
        );
        let r = guarded(|| {
            let tt: String = (0..(1usize << n))
                .map(|a| {
                    let inst: Vec<bool> = (0..n).map(|x| (a >> x) & 1 == 1).collect();
                    if d.evaluate(&inst) { '1' } else { '0' }
                })
                .collect();
            let cn = by_prime!(pi, wmc_ff, d, &wn);
            let ca = wmc_ff::<{ primes::U64_LARGEST }>(d, &wa);
            // smoothing over every admissible width, narrowest first or widest first, on the same
            // builder (the width is a parameter of every call)
            let k0 = {
                fn maxlvl(p: BddPtr, o: &rsdd::repr::VarOrder) -> usize {
                    match p {
                        BddPtr::Reg(nd) | BddPtr::Compl(nd) => {
                            std::cmp::max(o.get(nd.var) + 1, std::cmp::max(maxlvl(nd.low, o), maxlvl(nd.high, o)))
                        }
                        _ => 0,
                    }
                }
                maxlvl(d, b.order())
            };
            // … and up to two widths NARROWER than the diagram's deepest level: the first k levels
            // are then completed and the deeper part of every path stays as it is
            let mut widths: Vec<usize> = (k0.saturating_sub(2)..=n).collect();
            if i % 2 == 1 {
                widths.reverse();
            }
            let smk: Vec<String> = widths
                .iter()
                .map(|&k| {
                    let s = b.smooth(d, k);
                    format!("{}:{}:{}", k, bdd_raw_string(s), wmc_ff::<{ primes::U64_LARGEST }>(s, &wa))
                })
                .collect();
            let sm = b.smooth(d, n);
            let sa = wmc_ff::<{ primes::U64_LARGEST }>(sm, &wa);
            let ones: Vec<(u128, u128)> = (0..n).map(|_| (1, 1)).collect();
            let mc = wmc_ff::<{ primes::U64_LARGEST }>(sm, &ones);
            let mut rm = HashMap::new();
            for (x, k) in wr.iter().enumerate() {
                rm.insert(
                    VarLabel::new_usize(x),
                    (RealSemiring(1.0 - *k as f64 / 8.0), RealSemiring(*k as f64 / 8.0)),
                );
            }
            let rparams = WmcParams::new(rm);
            // the weight of one total assignment (bits of `i * 2654435761 mod 2^n`)
            let abits = (i.wrapping_mul(2654435761)) & ((1usize << n) - 1);
            let lits: Vec<rsdd::repr::Literal> =
                (0..n).map(|x| rsdd::repr::Literal::new(VarLabel::new_usize(x), (abits >> x) & 1 == 1)).collect();
            let aw = rparams.assignment_weight(&lits).0;
            let cr = d.unsmoothed_wmc(&rparams).0;
            let mut cm = HashMap::new();
            for (x, (a, bq)) in wc.iter().enumerate() {
                let (re, im) = (*a as f64 / 4.0, *bq as f64 / 4.0);
                cm.insert(VarLabel::new_usize(x), (Complex { re, im }, Complex { re: 1.0 - re, im: -im }));
            }
            let mut pmap = HashMap::new();
            for (x, dg) in wpd.iter().enumerate() {
                let mut hi = Polynomial::<RealSemiring>::zero();
                hi.coefficients[*dg] = RealSemiring(1.0);
                hi.len = *dg + 1;
                let mut lo = Polynomial::<RealSemiring>::zero();
                lo.coefficients[0] = RealSemiring(1.0);
                lo.coefficients[*dg] = RealSemiring(lo.coefficients[*dg].0 - 1.0);
                lo.len = *dg + 1;
                pmap.insert(VarLabel::new_usize(x), (lo, hi));
            }
            let pparams = WmcParams::new(pmap);
            let pstr = |q: Polynomial<RealSemiring>| -> String {
                format!("{}:{}", q.len, q.coefficients[..q.len].iter().map(|c| f64_exact(c.0)).collect::<Vec<_>>().join(";"))
            };
            let cp = pstr(d.unsmoothed_wmc(&pparams));
            let cpn = pstr(d.neg().unsmoothed_wmc(&pparams));
            let mut eum = HashMap::new();
            for (x, (k, u)) in weu.iter().enumerate() {
                let (p, u) = (*k as f64 / 8.0, *u as f64);
                eum.insert(VarLabel::new_usize(x), (ExpectedUtility(1.0 - p, -u), ExpectedUtility(p, u)));
            }
            let eup = WmcParams::new(eum);
            let ce = d.unsmoothed_wmc(&eup);
            let cen = d.neg().unsmoothed_wmc(&eup);
            let cxp = WmcParams::new(cm);
            let cx = d.unsmoothed_wmc(&cxp);
            let cxn = d.neg().unsmoothed_wmc(&cxp);
            let (sh, shw) = by_prime!(pi, sem_hash, d, n);
            let (shn, _) = by_prime!(pi, sem_hash, d.neg(), n);
            format!(
                "tt={} cn={} ca={} sm={} sa={} mc={} cr={} aw={}:{} cx={},{} cxn={},{} ce={},{} cen={},{} cp={} cpn={} nodes={} sh={} shn={} shw={} smk={} k0={}",
                tt, cn, ca, bdd_raw_string(sm), sa, mc, f64_exact(cr), abits, f64_exact(aw), f64_exact(cx.re), f64_exact(cx.im),
                f64_exact(cxn.re), f64_exact(cxn.im), f64_exact(ce.0), f64_exact(ce.1), f64_exact(cen.0), f64_exact(cen.1), cp, cpn, d.count_nodes(), sh, shn, pairs(&shw), smk.join(";"), k0
            )
        });
        out.push(format!("{} => {}", head, r.unwrap_or_else(|e| e)));
    }
    out
}
