//! SplitMix64: every random choice of a case derives from (seed, case index)
#[derive(Clone)]
pub struct Rng(pub u64);

impl Rng {
    pub fn for_case(seed: u64, stream: &str, idx: u64) -> Rng {
        let mut h: u64 = seed ^ 0x9E37_79B9_7F4A_7C15;
        for b in stream.bytes() {
            h = (h ^ b as u64).wrapping_mul(0x1000_0000_01B3);
        }
        let mut r = Rng(h ^ idx.wrapping_mul(0xD6E8_FEB8_6659_FD93));
        r.next();
        r.next();
        r
    }
    pub fn next(&mut self) -> u64 {
        self.0 = self.0.wrapping_add(0x9E37_79B9_7F4A_7C15);
        let mut z = self.0;
        z = (z ^ (z >> 30)).wrapping_mul(0xBF58_476D_1CE4_E5B9);
        z = (z ^ (z >> 27)).wrapping_mul(0x94D0_49BB_1331_11EB);
        z ^ (z >> 31)
    }
    /// uniform in 0..n (n > 0)
    pub fn below(&mut self, n: u64) -> u64 {
        self.next() % n
    }
    pub fn range(&mut self, lo: u64, hi_incl: u64) -> u64 {
        lo + self.below(hi_incl - lo + 1)
    }
    pub fn coin(&mut self) -> bool {
        self.next() & 1 == 1
    }
    /// true with probability num/den
    pub fn chance(&mut self, num: u64, den: u64) -> bool {
        self.below(den) < num
    }
    pub fn shuffle<T>(&mut self, v: &mut [T]) {
        for i in (1..v.len()).rev() {
            let j = self.below(i as u64 + 1) as usize;
            v.swap(i, j);
        }
    }
    pub fn perm(&mut self, n: usize) -> Vec<usize> {
        let mut v: Vec<usize> = (0..n).collect();
        self.shuffle(&mut v);
        v
    }
    pub fn pick<'a, T>(&mut self, v: &'a [T]) -> &'a T {
        &v[self.below(v.len() as u64) as usize]
    }
}
