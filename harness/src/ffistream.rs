//! `ffi` stream (C18): every call sequence is run through the exported C symbols and through
//! the native Rust API; both are printed so that the driver can compare them with each other
//! and with the model
use crate::bddgen::*;
use crate::common::*;
use crate::ringstream::f64_exact;
use crate::rng::Rng;
use rsdd::builder::bdd::RobddBuilder;
use rsdd::builder::cache::AllIteTable;
use rsdd::builder::BottomUpBuilder;
use rsdd::constants::primes;
use rsdd::repr::{BddPtr, DDNNFPtr, VarLabel, WmcParams};
use rsdd::util::semirings::{Complex, FiniteField, Polynomial, RealSemiring, Semiring, MAX_COEFFS};
use std::collections::HashMap;
use std::ffi::{c_char, c_void, CStr};

type H = *mut c_void;

#[repr(C)]
#[derive(Clone, Copy)]
struct WeightF64(f64, f64);

extern "C" {
    fn mk_bdd_manager_default_order(num_vars: u64) -> H;
    fn free_bdd_manager(mgr: H);
    fn bdd_new_label(b: H) -> u64;
    fn bdd_var(b: H, label: u64, polarity: bool) -> H;
    fn bdd_new_var(b: H, polarity: bool) -> H;
    fn bdd_ite(b: H, f: H, g: H, h: H) -> H;
    fn bdd_and(b: H, l: H, r: H) -> H;
    fn bdd_or(b: H, l: H, r: H) -> H;
    fn bdd_negate(b: H, f: H) -> H;
    fn bdd_compose(b: H, f: H, l: VarLabel, g: H) -> H;
    fn bdd_is_true(f: H) -> bool;
    fn bdd_is_false(f: H) -> bool;
    fn bdd_is_const(f: H) -> bool;
    fn bdd_count_nodes(f: H) -> usize;
    fn bdd_true(b: H) -> H;
    fn bdd_false(b: H) -> H;
    fn bdd_eq(b: H, l: H, r: H) -> bool;
    fn bdd_topvar(f: H) -> u64;
    fn bdd_low(f: H) -> H;
    fn bdd_high(f: H) -> H;
    fn bdd_to_json(f: H) -> *const c_char;
    fn robdd_model_count(b: H, f: H) -> u64;
    fn new_wmc_params_f64() -> H;
    fn wmc_param_f64_set_weight(w: H, var: u64, low: f64, high: f64);
    fn wmc_param_f64_var_weight(w: H, var: u64) -> WeightF64;
    fn weight_f64_lo(w: WeightF64) -> f64;
    fn weight_f64_hi(w: WeightF64) -> f64;
    fn bdd_wmc(f: H, w: H) -> f64;
    fn new_wmc_params_complex() -> H;
    fn wmc_param_complex_set_weight(w: H, var: u64, low: Complex, high: Complex);
    fn bdd_wmc_complex(f: H, w: H) -> Complex;
    fn new_wmc_params_poly() -> H;
    fn wmc_param_poly_set_weight(w: H, var: u64, lc: *const f64, ll: usize, hc: *const f64, hl: usize);
    fn bdd_wmc_poly(f: H, w: H) -> H;
    fn polynomial_len(p: H) -> usize;
    fn polynomial_get_coeffs(p: H, buf: *mut f64, max_len: usize) -> usize;
    fn new_polynomial(coeffs: *const f64, len: usize) -> H;
    fn bdd_scratch(f: H, default: usize) -> usize;
    fn bdd_set_scratch(f: H, val: usize);
    fn bdd_clear_scratch(f: H);
    fn bdd_num_recursive_calls(b: H) -> usize;
    fn wmc_param_complex_var_weight(w: H, var: u64) -> WeightComplex;
    fn weight_complex_lo(w: WeightComplex) -> Complex;
    fn weight_complex_hi(w: WeightComplex) -> Complex;
    fn wmc_param_poly_var_weight(w: H, var: u64) -> WeightPoly;
    fn free_wmc_params_f64(w: H);
    fn free_wmc_params_complex(w: H);
    fn destroy_wmc_params_poly(w: H);
    fn destroy_polynomial(p: H);
}

#[repr(C)]
#[derive(Clone, Copy)]
struct WeightComplex(Complex, Complex);

#[repr(C)]
struct WeightPoly {
    low: H,
    high: H,
}

/// complement-free expansion through the C accessors: `T`, `F`, `(v,lo,hi)`
unsafe fn walk_c(f: H, depth: usize) -> String {
    if depth > 40 {
        return "?".to_string();
    }
    if bdd_is_true(f) {
        "T".to_string()
    } else if bdd_is_false(f) {
        "F".to_string()
    } else {
        format!("({},{},{})", bdd_topvar(f), walk_c(bdd_low(f), depth + 1), walk_c(bdd_high(f), depth + 1))
    }
}

fn walk_native(p: BddPtr) -> String {
    match p {
        BddPtr::PtrTrue => "T".to_string(),
        BddPtr::PtrFalse => "F".to_string(),
        _ => format!("({},{},{})", p.var_safe().unwrap().value(), walk_native(p.low()), walk_native(p.high())),
    }
}

fn poly_str(len: usize, cs: &[f64]) -> String {
    format!("{}:{}", len, cs.iter().map(|c| f64_exact(*c)).collect::<Vec<_>>().join(";"))
}

pub fn ffi_line(rng: &mut Rng, maxvars: usize, maxops: usize) -> String {
    let n = rng.range(1, maxvars as u64) as usize;
    let nops = rng.range(4, maxops as u64) as usize;
    // only the operations the C interface has; the order is always linear there
    let mut prog = gen_program_x(rng, n, nops, true, true);
    prog.order = (0..n).collect();
    for op in prog.ops.iter_mut() {
        match op {
            Op::Xor(i, j) | Op::Iff(i, j) => *op = Op::Or(*i, *j),
            Op::Cond(i, _, _) | Op::Exist(i, _) => *op = Op::Neg(*i),
            _ => {}
        }
    }
    let total_vars = n + prog.ops.iter().filter(|o| matches!(o, Op::NewVar(_))).count();
    let wr: Vec<(u64, u64)> = (0..total_vars).map(|_| (rng.below(9), rng.below(9))).collect();
    let wc: Vec<(i64, i64, i64, i64)> = (0..total_vars)
        .map(|_| (rng.below(5) as i64 - 2, rng.below(5) as i64 - 2, rng.below(5) as i64 - 2, rng.below(5) as i64 - 2))
        .collect();
    // polynomial weights: short coefficient lists, sometimes longer than MAX_COEFFS (truncation)
    let wp: Vec<(Vec<f64>, Vec<f64>)> = (0..total_vars)
        .map(|_| {
            let mut mk = |rng: &mut Rng| -> Vec<f64> {
                let len = match rng.below(10) {
                    0 => 0,
                    1 => MAX_COEFFS + 3,
                    _ => 1 + rng.below(3) as usize,
                };
                (0..len).map(|_| rng.below(4) as f64).collect()
            };
            (mk(rng), mk(rng))
        })
        .collect();
    let head = format!(
        "ffi n={} ops={} wr={} wc={} wp={}",
        n,
        prog.ops.iter().map(|o| o.print()).collect::<Vec<_>>().join("|"),
        wr.iter().map(|(l, h)| format!("{}:{}", l, h)).collect::<Vec<_>>().join(","),
        wc.iter().map(|(a, b, c, d)| format!("{}:{}:{}:{}", a, b, c, d)).collect::<Vec<_>>().join(","),
        wp.iter()
            .map(|(l, h)| {
                let f = |v: &Vec<f64>| v.iter().map(|x| (*x as u64).to_string()).collect::<Vec<_>>().join(".");
                format!("{}/{}", f(l), f(h))
            })
            .collect::<Vec<_>>()
            .join(",")
    );
    let r = guarded(|| unsafe {
        rsdd::verif_hooks::set_table_capacity(None);
        // ---- through the C symbols
        let b = mk_bdd_manager_default_order(n as u64);
        let mut pool: Vec<H> = Vec::new();
        let mut mc_now: Vec<u64> = Vec::new();
        for op in prog.ops.iter() {
            let h = match op {
                Op::Const(v) => if *v { bdd_true(b) } else { bdd_false(b) },
                Op::Var(x, p) => bdd_var(b, *x as u64, *p),
                Op::NewVar(p) => bdd_new_var(b, *p),
                Op::Neg(i) => bdd_negate(b, pool[*i]),
                Op::And(i, j) => bdd_and(b, pool[*i], pool[*j]),
                Op::Or(i, j) => bdd_or(b, pool[*i], pool[*j]),
                Op::Ite(i, j, k) => bdd_ite(b, pool[*i], pool[*j], pool[*k]),
                Op::Compose(i, x, j) => bdd_compose(b, pool[*i], VarLabel::new_usize(*x), pool[*j]),
                _ => panic!("not a C operation"),
            };
            pool.push(h);
            // the count over the variables the manager has at this moment
            mc_now.push(robdd_model_count(b, h));
        }
        let cw: Vec<String> = pool.iter().map(|h| walk_c(*h, 0)).collect();
        let ceq: Vec<usize> = (0..pool.len()).map(|i| (0..=i).find(|&j| bdd_eq(b, pool[j], pool[i])).unwrap()).collect();
        let cmc: Vec<u64> = pool.iter().map(|h| robdd_model_count(b, *h)).collect();
        let cnodes: Vec<usize> = pool.iter().map(|h| bdd_count_nodes(*h)).collect();
        let cconst: String = pool.iter().map(|h| if bdd_is_const(*h) { '1' } else { '0' }).collect();
        let wf = new_wmc_params_f64();
        let wcx = new_wmc_params_complex();
        let wpo = new_wmc_params_poly();
        for v in 0..total_vars {
            wmc_param_f64_set_weight(wf, v as u64, wr[v].0 as f64 / 8.0, wr[v].1 as f64 / 8.0);
            let (a, bb, c, d) = wc[v];
            wmc_param_complex_set_weight(
                wcx,
                v as u64,
                Complex { re: a as f64 / 2.0, im: bb as f64 / 2.0 },
                Complex { re: c as f64 / 2.0, im: d as f64 / 2.0 },
            );
            wmc_param_poly_set_weight(wpo, v as u64, wp[v].0.as_ptr(), wp[v].0.len(), wp[v].1.as_ptr(), wp[v].1.len());
        }
        let back = wmc_param_f64_var_weight(wf, 0);
        let wback = format!("{},{}", f64_exact(weight_f64_lo(back)), f64_exact(weight_f64_hi(back)));
        let last = *pool.last().unwrap();
        let cr = f64_exact(bdd_wmc(last, wf));
        let cc = bdd_wmc_complex(last, wcx);
        let pp = bdd_wmc_poly(last, wpo);
        let plen = polynomial_len(pp);
        let mut buf = vec![0.0f64; MAX_COEFFS];
        let got = polynomial_get_coeffs(pp, buf.as_mut_ptr(), MAX_COEFFS);
        let cp = poly_str(plen, &buf[..got]);
        // second round on the SAME weight tables, updated in place (profile rotated by one
        // variable): counts must follow the update ("any call sequence")
        let rot = |v: usize| (v + 1) % total_vars.max(1);
        for v in 0..total_vars {
            let r = rot(v);
            wmc_param_f64_set_weight(wf, v as u64, wr[r].0 as f64 / 8.0, wr[r].1 as f64 / 8.0);
            let (a, bb, c, d) = wc[r];
            wmc_param_complex_set_weight(
                wcx,
                v as u64,
                Complex { re: a as f64 / 2.0, im: bb as f64 / 2.0 },
                Complex { re: c as f64 / 2.0, im: d as f64 / 2.0 },
            );
            wmc_param_poly_set_weight(wpo, v as u64, wp[r].0.as_ptr(), wp[r].0.len(), wp[r].1.as_ptr(), wp[r].1.len());
        }
        let cr2 = f64_exact(bdd_wmc(last, wf));
        let cc2 = bdd_wmc_complex(last, wcx);
        let pp2 = bdd_wmc_poly(last, wpo);
        let plen2 = polynomial_len(pp2);
        let mut buf2 = vec![0.0f64; MAX_COEFFS];
        let got2 = polynomial_get_coeffs(pp2, buf2.as_mut_ptr(), MAX_COEFFS);
        let cp2 = poly_str(plen2, &buf2[..got2]);
        // and back to the first profile for the read-back tests below
        for v in 0..total_vars {
            wmc_param_f64_set_weight(wf, v as u64, wr[v].0 as f64 / 8.0, wr[v].1 as f64 / 8.0);
            let (a, bb, c, d) = wc[v];
            wmc_param_complex_set_weight(
                wcx,
                v as u64,
                Complex { re: a as f64 / 2.0, im: bb as f64 / 2.0 },
                Complex { re: c as f64 / 2.0, im: d as f64 / 2.0 },
            );
            wmc_param_poly_set_weight(wpo, v as u64, wp[v].0.as_ptr(), wp[v].0.len(), wp[v].1.as_ptr(), wp[v].1.len());
        }
        let cr3 = f64_exact(bdd_wmc(last, wf));
        let js = CStr::from_ptr(bdd_to_json(last)).to_string_lossy().to_string();
        // marshalling of a long coefficient array (truncation at MAX_COEFFS)
        let long: Vec<f64> = (0..MAX_COEFFS + 5).map(|i| (i % 3) as f64).collect();
        let lp = new_polynomial(long.as_ptr(), long.len());
        let lplen = polynomial_len(lp);
        // the remaining accessors: per-node scratch slot, recursion counter, weight read-back
        let xs = if bdd_is_const(last) {
            "const".to_string()
        } else {
            let a = bdd_scratch(last, 3);
            bdd_set_scratch(last, 7);
            let b2 = bdd_scratch(last, 3);
            bdd_clear_scratch(last);
            let c2 = bdd_scratch(last, 5);
            format!("{}.{}.{}", a, b2, c2)
        };
        let crc = bdd_num_recursive_calls(b);
        let cwb = {
            let w = wmc_param_complex_var_weight(wcx, 0);
            let (l, h) = (weight_complex_lo(w), weight_complex_hi(w));
            format!("{}:{}:{}:{}", f64_exact(l.re), f64_exact(l.im), f64_exact(h.re), f64_exact(h.im))
        };
        let cpb = {
            let w = wmc_param_poly_var_weight(wpo, 0);
            let rd = |p: H| -> String {
                if p.is_null() {
                    return "null".to_string();
                }
                let len = polynomial_len(p);
                let mut buf = vec![0.0f64; MAX_COEFFS];
                let got = polynomial_get_coeffs(p, buf.as_mut_ptr(), MAX_COEFFS);
                poly_str(len, &buf[..got])
            };
            let r = format!("{}~{}", rd(w.low), rd(w.high));
            destroy_polynomial(w.low);
            destroy_polynomial(w.high);
            r
        };
        free_wmc_params_f64(wf);
        free_wmc_params_complex(wcx);
        destroy_wmc_params_poly(wpo);
        destroy_polynomial(lp);
        let _ = bdd_new_label(b);
        free_bdd_manager(b);
        // ---- through the native API
        let nb = RobddBuilder::<AllIteTable<BddPtr>>::new(mk_order(&prog.order));
        let npool = exec(&nb, &prog.ops);
        let nw: Vec<String> = npool.iter().map(|p| walk_native(*p)).collect();
        let neq = eq_classes(&nb, &npool);
        let nv = nb.num_vars();
        let nmc: Vec<u128> = npool
            .iter()
            .map(|p| {
                let sm = nb.smooth(*p, nv);
                let params: WmcParams<FiniteField<{ primes::U64_LARGEST }>> = WmcParams::new(HashMap::from_iter(
                    (0..nv as u64).map(|v| (VarLabel::new(v), (FiniteField::one(), FiniteField::one()))),
                ));
                sm.unsmoothed_wmc(&params).value()
            })
            .collect();
        let nlast = *npool.last().unwrap();
        let mut rm = HashMap::new();
        let mut cm = HashMap::new();
        let mut pm = HashMap::new();
        for v in 0..total_vars {
            rm.insert(VarLabel::new_usize(v), (RealSemiring(wr[v].0 as f64 / 8.0), RealSemiring(wr[v].1 as f64 / 8.0)));
            let (a, bb, c, d) = wc[v];
            cm.insert(
                VarLabel::new_usize(v),
                (Complex { re: a as f64 / 2.0, im: bb as f64 / 2.0 }, Complex { re: c as f64 / 2.0, im: d as f64 / 2.0 }),
            );
            let mkp = |cs: &Vec<f64>| {
                let mut p = Polynomial::<RealSemiring>::zero();
                let l = cs.len().min(MAX_COEFFS);
                for i in 0..l {
                    p.coefficients[i] = RealSemiring(cs[i]);
                }
                p.len = l;
                p
            };
            pm.insert(VarLabel::new_usize(v), (mkp(&wp[v].0), mkp(&wp[v].1)));
        }
        let nxs = if nlast.is_const() {
            "const".to_string()
        } else {
            let a = nlast.scratch::<usize>().unwrap_or(3);
            nlast.set_scratch::<usize>(7);
            let b2 = nlast.scratch::<usize>().unwrap_or(3);
            nlast.clear_scratch();
            let c2 = nlast.scratch::<usize>().unwrap_or(5);
            format!("{}.{}.{}", a, b2, c2)
        };
        let nrc = nb.num_recursive_calls();
        let nwb = {
            let (a, bb, c, d) = wc[0];
            format!("{}:{}:{}:{}", f64_exact(a as f64 / 2.0), f64_exact(bb as f64 / 2.0), f64_exact(c as f64 / 2.0), f64_exact(d as f64 / 2.0))
        };
        let npb = {
            let (l, h) = pm.get(&VarLabel::new_usize(0)).unwrap();
            let f = |p: &Polynomial<RealSemiring>| poly_str(p.len, &p.coefficients[..p.len].iter().map(|c| c.0).collect::<Vec<_>>());
            format!("{}~{}", f(l), f(h))
        };
        // native counts under the rotated profile
        let (nr2, nc2, np2) = {
            let rot = |v: usize| (v + 1) % total_vars.max(1);
            let mut rm2 = HashMap::new();
            let mut cm2 = HashMap::new();
            let mut pm2 = HashMap::new();
            for v in 0..total_vars {
                let l = VarLabel::new_usize(v);
                let r = VarLabel::new_usize(rot(v));
                rm2.insert(l, *rm.get(&r).unwrap());
                cm2.insert(l, *cm.get(&r).unwrap());
                pm2.insert(l, *pm.get(&r).unwrap());
            }
            let a = f64_exact(nlast.unsmoothed_wmc(&WmcParams::new(rm2)).0);
            let b2 = nlast.unsmoothed_wmc(&WmcParams::new(cm2));
            let c2 = nlast.unsmoothed_wmc(&WmcParams::new(pm2));
            let cs: Vec<f64> = c2.coefficients[..c2.len].iter().map(|c| c.0).collect();
            (a, format!("{},{}", f64_exact(b2.re), f64_exact(b2.im)), poly_str(c2.len, &cs))
        };
        let nr = f64_exact(nlast.unsmoothed_wmc(&WmcParams::new(rm)).0);
        let ncx = nlast.unsmoothed_wmc(&WmcParams::new(cm));
        let npoly = nlast.unsmoothed_wmc(&WmcParams::new(pm));
        let npc: Vec<f64> = npoly.coefficients[..npoly.len].iter().map(|c| c.0).collect();
        format!(
            "mcnow={} cw={} ceq={} cmc={} cnodes={} cconst={} wback={} cr={} cc={},{} cp={} lplen={} json={} nw={} neq={} nmc={} nr={} nc={},{} np={} nvars={} xs={} nxs={} crc={} nrc={} cwb={} nwb={} cpb={} npb={} cr2={} cc2={},{} cp2={} cr3={} nr2={} nc2={} np2={}",
            csv(&mc_now), cw.join("|"), csv(&ceq), csv(&cmc), csv(&cnodes), cconst, wback, cr,
            f64_exact(cc.re), f64_exact(cc.im), cp, lplen, js.replace(' ', ""),
            nw.join("|"), csv(&neq), csv(&nmc), nr, f64_exact(ncx.re), f64_exact(ncx.im),
            poly_str(npoly.len, &npc), nv, xs, nxs, crc, nrc, cwb, nwb, cpb, npb,
            cr2, f64_exact(cc2.re), f64_exact(cc2.im), cp2, cr3, nr2, nc2, np2
        )
    });
    format!("{} => {}", head, r.unwrap_or_else(|e| e))
}

/// `kind=wide` lines: model counts on managers with 54 to 64 variables (counts beyond 2^53),
/// for diagrams whose count has a closed form: the disjunction / conjunction of the first k
/// variables and a single variable
pub fn ffi_wide_line(rng: &mut Rng) -> String {
    let n = rng.range(54, 64) as usize;
    let ks: Vec<usize> = vec![n, rng.range(1, n as u64) as usize, rng.range(40, n as u64) as usize];
    let head = format!("ffi kind=wide n={} ks={}", n, csv(&ks));
    let r = guarded(|| unsafe {
        rsdd::verif_hooks::set_table_capacity(None);
        let nb = RobddBuilder::<AllIteTable<BddPtr>>::new(mk_order(&(0..n).collect::<Vec<_>>()));
        fn count_n<'a>(nb: &'a RobddBuilder<'a, AllIteTable<BddPtr<'a>>>, p: BddPtr<'a>, n: usize) -> u128 {
            let sm = nb.smooth(p, n);
            let params: WmcParams<FiniteField<{ primes::U64_LARGEST }>> = WmcParams::new(HashMap::from_iter(
                (0..n as u64).map(|v| (VarLabel::new(v), (FiniteField::one(), FiniteField::one()))),
            ));
            sm.unsmoothed_wmc(&params).value()
        }
        let b = mk_bdd_manager_default_order(n as u64);
        let mut c = Vec::new();
        let mut nn = Vec::new();
        for &k in ks.iter() {
            // disjunction and conjunction of x0..x(k-1), built from the last variable upwards
            let mut cor = bdd_false(b);
            let mut cand = bdd_true(b);
            let mut nor = nb.false_ptr();
            let mut nand = nb.true_ptr();
            for v in (0..k).rev() {
                let cv = bdd_var(b, v as u64, true);
                cor = bdd_or(b, cv, cor);
                cand = bdd_and(b, cv, cand);
                let nv = nb.var(VarLabel::new_usize(v), true);
                nor = nb.or(nv, nor);
                nand = nb.and(nv, nand);
            }
            c.push(robdd_model_count(b, cor));
            c.push(robdd_model_count(b, cand));
            c.push(robdd_model_count(b, bdd_var(b, (k - 1) as u64, false)));
            nn.push(count_n(&nb, nor, n));
            nn.push(count_n(&nb, nand, n));
            nn.push(count_n(&nb, nb.var(VarLabel::new_usize(k - 1), false), n));
        }
        free_bdd_manager(b);
        format!("cmc={} nmc={}", csv(&c), csv(&nn))
    });
    format!("{} => {}", head, r.unwrap_or_else(|e| e))
}
