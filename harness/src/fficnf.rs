//! `ffi` stream, second line kind (C18): the CNF / order / dtree / vtree / SDD / decision-DNNF
//! part of the C interface.  A CNF is built through `literal_new` + `cnf_new` (or
//! `cnf_from_dimacs`), compiled through the three C compile entry points, and every observable
//! is printed next to what the native Rust API gives for the same arguments.
use crate::cnfgen::*;
use crate::common::*;
use crate::ringstream::f64_exact;
use crate::rng::Rng;
use rsdd::builder::bdd::RobddBuilder;
use rsdd::builder::cache::AllIteTable;
use rsdd::builder::decision_nnf::{DecisionNNFBuilder, StandardDecisionNNFBuilder};
use rsdd::builder::sdd::CompressionSddBuilder;
use rsdd::builder::BottomUpBuilder;
use rsdd::repr::{BddPtr, Cnf, DDNNFPtr, DTree, Literal, VTree, VarLabel, VarOrder, WmcParams};
use rsdd::util::semirings::RealSemiring;
use std::collections::HashMap;
use std::ffi::{c_char, c_void, CString};

type H = *mut c_void;

#[repr(C)]
struct CClause {
    vars: *mut Literal,
    len: usize,
}

extern "C" {
    fn literal_new(label: VarLabel, polarity: bool) -> Literal;
    fn cnf_new(clauses: *const CClause, len: usize) -> H;
    fn cnf_from_dimacs(s: *const c_char) -> H;
    fn cnf_min_fill_order(cnf: H) -> H;
    fn var_order_new(order: *const VarLabel, len: usize) -> H;
    fn var_order_linear(num_vars: usize) -> H;
    fn robdd_builder_all_table(order: H) -> H;
    fn robdd_builder_compile_cnf(builder: H, cnf: H) -> H;
    fn robdd_model_count(b: H, f: H) -> u64;
    fn ddnnf_builder_new(order: H) -> H;
    fn ddnnf_builder_compile_cnf_topdown(builder: H, cnf: H) -> H;
    fn dtree_from_cnf(cnf: H, elim: H) -> H;
    fn vtree_from_dtree(dtree: H) -> H;
    fn sdd_builder_new(vtree: H) -> H;
    fn sdd_builder_compile_cnf(builder: H, cnf: H) -> H;
    fn sdd_wmc(sdd: H, w: H) -> f64;
    fn new_wmc_params_f64() -> H;
    fn wmc_param_f64_set_weight(w: H, var: u64, low: f64, high: f64);
    fn bdd_is_true(f: H) -> bool;
    fn bdd_is_false(f: H) -> bool;
    fn bdd_topvar(f: H) -> u64;
    fn bdd_low(f: H) -> H;
    fn bdd_high(f: H) -> H;
    fn print_bdd(f: H) -> *const c_char;
}

unsafe fn walk_c(f: H, depth: usize) -> String {
    if depth > 40 {
        return "?".to_string();
    }
    if bdd_is_true(f) {
        "T".to_string()
    } else if bdd_is_false(f) {
        "F".to_string()
    } else {
        format!("({},{},{})", bdd_topvar(f), walk_c(bdd_low(f), depth + 1), walk_c(bdd_high(f), depth + 1))
    }
}

/// the same expansion through the native accessors
fn walk_n(p: BddPtr) -> String {
    if p.is_true() {
        "T".to_string()
    } else if p.is_false() {
        "F".to_string()
    } else {
        format!("({},{},{})", p.var_safe().map(|v| v.value()).unwrap_or(u64::MAX), walk_n(p.low()), walk_n(p.high()))
    }
}

unsafe fn c_cnf(raw: &RawCnf) -> H {
    // literal buffers must outlive the call only (cnf_new copies them)
    let mut bufs: Vec<Vec<Literal>> = raw
        .iter()
        .map(|c| c.iter().map(|&(v, p)| literal_new(VarLabel::new_usize(v), p)).collect())
        .collect();
    let clauses: Vec<CClause> = bufs
        .iter_mut()
        .map(|b| CClause {
            // an empty clause: a well-aligned non-null pointer and length zero
            vars: if b.is_empty() { std::ptr::NonNull::<Literal>::dangling().as_ptr() } else { b.as_mut_ptr() },
            len: b.len(),
        })
        .collect();
    let p = if clauses.is_empty() { std::ptr::NonNull::<CClause>::dangling().as_ptr() as *const CClause } else { clauses.as_ptr() };
    cnf_new(p, clauses.len())
}

fn order_str(o: &VarOrder, n: usize) -> String {
    (0..n).map(|v| o.get(VarLabel::new_usize(v)).to_string()).collect::<Vec<_>>().join(".")
}

pub fn ffi_cnf_line(rng: &mut Rng, maxvars: usize) -> String {
    let mut raw = gen_cnf(rng, maxvars, 2 * maxvars + 1, true);
    // an empty clause in one more case out of eight, alone or among others
    if rng.chance(1, 8) {
        let at = rng.below(raw.len() as u64 + 1) as usize;
        raw.insert(at, vec![]);
    }
    let native = to_cnf(&raw);
    let n = std::cmp::max(native.num_vars(), 1);
    let perm = rng.perm(n);
    let linear = rng.chance(1, 3);
    let has_empty = raw.iter().any(|c| c.is_empty());
    let via_dimacs = !has_empty && !raw.is_empty() && native.num_vars() >= 1 && rng.chance(1, 3);
    let ws: Vec<u64> = (0..n).map(|_| rng.below(9)).collect();
    let head = format!(
        "ffi kind=cnf n={} raw={} order={} via={} w={}",
        n,
        print_raw(&raw),
        if linear { csv(&(0..n).collect::<Vec<_>>()) } else { csv(&perm) },
        if via_dimacs { "dimacs" } else { "new" },
        ws.iter().map(|k| k.to_string()).collect::<Vec<_>>().join(",")
    );
    let r = guarded(|| unsafe {
        rsdd::verif_hooks::set_table_capacity(Some(8));
        let labels: Vec<VarLabel> = perm.iter().map(|&x| VarLabel::new_usize(x)).collect();
        let mk_c_order = || if linear { var_order_linear(n) } else { var_order_new(labels.as_ptr(), labels.len()) };
        let mk_n_order = || if linear { VarOrder::linear_order(n) } else { VarOrder::new(&labels) };
        let text = format!("p cnf {} {}\n{}", native.num_vars(), native.clauses().len(), native.to_dimacs());
        let dimacs_text = CString::new(text.clone()).unwrap();
        let mk_c_cnf = || if via_dimacs { cnf_from_dimacs(dimacs_text.as_ptr()) } else { c_cnf(&raw) };
        let mk_n_cnf = || if via_dimacs { Cnf::from_dimacs(&text) } else { to_cnf(&raw) };
        // the native calls come first: a panic inside an `extern "C"` function cannot unwind
        // (it aborts the process), so the C route is only taken for arguments the native
        // operation accepts
        let ncnf = mk_n_cnf();
        let _ = ncnf.min_fill_order();
        {
            let nb0 = RobddBuilder::<AllIteTable<BddPtr>>::new(mk_n_order());
            let _ = nb0.compile_cnf(&ncnf);
            let ndb0 = StandardDecisionNNFBuilder::new(mk_n_order());
            let _ = ndb0.compile_cnf_topdown(&ncnf);
            if !(ncnf.clauses().is_empty() || has_empty) {
                let ndt0 = DTree::from_cnf(&ncnf, &mk_n_order());
                if let Some(vt) = VTree::from_dtree(&ndt0) {
                    let sb0 = CompressionSddBuilder::new(vt);
                    let _ = sb0.compile_cnf(&ncnf);
                }
            }
        }
        // the CNF object itself
        let cc = mk_c_cnf();
        let ccnf: &Cnf = &*(cc as *const Cnf);
        let c_text = print_cnf(ccnf);
        let n_text = print_cnf(&ncnf);
        // min-fill order
        let cmf = cnf_min_fill_order(cc);
        let cmf_s = order_str(&*(cmf as *const VarOrder), ccnf.num_vars());
        let nmf_s = order_str(&ncnf.min_fill_order(), ncnf.num_vars());
        // bottom-up BDD
        let cb = robdd_builder_all_table(mk_c_order());
        let cres = robdd_builder_compile_cnf(cb, mk_c_cnf());
        let cb_s = walk_c(cres, 0);
        let cmc = robdd_model_count(cb, cres);
        let cpr = std::ffi::CStr::from_ptr(print_bdd(cres)).to_string_lossy().to_string();
        let nb = RobddBuilder::<AllIteTable<BddPtr>>::new(mk_n_order());
        let nres = nb.compile_cnf(&ncnf);
        let nb_s = walk_n(nres);
        let npr = nres.print_bdd();
        // top-down decision-DNNF
        let cdb = ddnnf_builder_new(mk_c_order());
        let cd = ddnnf_builder_compile_cnf_topdown(cdb, cc);
        let cd_s = walk_c(cd, 0);
        let ndb = StandardDecisionNNFBuilder::new(mk_n_order());
        let nd_s = walk_n(ndb.compile_cnf_topdown(&ncnf));
        // SDD under the dtree-derived vtree, real weighted count
        let (csw, nsw) = if ncnf.clauses().is_empty() || has_empty {
            ("skipped".to_string(), "skipped".to_string())
        } else {
            let celim = mk_c_order();
            let cdt = dtree_from_cnf(cc, celim);
            let cvt = vtree_from_dtree(cdt);
            let ndt = DTree::from_cnf(&ncnf, &mk_n_order());
            let nvt = VTree::from_dtree(&ndt);
            let wp = new_wmc_params_f64();
            let mut m = HashMap::new();
            for (v, k) in ws.iter().enumerate() {
                wmc_param_f64_set_weight(wp, v as u64, 1.0 - *k as f64 / 8.0, *k as f64 / 8.0);
                m.insert(VarLabel::new_usize(v), (RealSemiring(1.0 - *k as f64 / 8.0), RealSemiring(*k as f64 / 8.0)));
            }
            let c = if cvt.is_null() {
                "null".to_string()
            } else {
                let sb = sdd_builder_new(cvt);
                let s = sdd_builder_compile_cnf(sb, cc);
                f64_exact(sdd_wmc(s, wp))
            };
            let nn = match nvt {
                None => "null".to_string(),
                Some(vt) => {
                    let sb = CompressionSddBuilder::new(vt);
                    let s = sb.compile_cnf(&ncnf);
                    f64_exact(s.unsmoothed_wmc(&WmcParams::new(m)).0)
                }
            };
            (c, nn)
        };
        let esc = |s: &str| s.replace(' ', "_").replace('\n', "/");
        format!(
            "ccnf={} ncnf={} cmf={} nmf={} cb={} nb={} cmc={} cpr={} npr={} cd={} nd={} csw={} nsw={}",
            c_text, n_text, cmf_s, nmf_s, cb_s, nb_s, cmc, esc(&cpr), esc(&npr), cd_s, nd_s, csw, nsw
        )
    });
    format!("{} => {}", head, r.unwrap_or_else(|e| e))
}
