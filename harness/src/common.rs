//! canonical printing shared by the streams
use rsdd::repr::{BddPtr, DDNNFPtr};
use std::fmt::Write;

/// raw structure of a BDD pointer: `T`, `F`, `(c v lo hi)` with the stored (raw) children
pub fn bdd_raw(p: BddPtr, out: &mut String) {
    match p {
        BddPtr::PtrTrue => out.push('T'),
        BddPtr::PtrFalse => out.push('F'),
        BddPtr::Reg(n) | BddPtr::Compl(n) => {
            let c = if p.is_neg() { 1 } else { 0 };
            write!(out, "({},{},", c, n.var.value()).unwrap();
            bdd_raw(n.low, out);
            out.push(',');
            bdd_raw(n.high, out);
            out.push(')');
        }
    }
}

pub fn bdd_raw_string(p: BddPtr) -> String {
    let mut s = String::new();
    bdd_raw(p, &mut s);
    s
}

pub fn csv<T: std::fmt::Display>(v: &[T]) -> String {
    v.iter().map(|x| x.to_string()).collect::<Vec<_>>().join(",")
}

/// run `f`, turning a panic into `Err(class)`
pub fn guarded<R>(f: impl FnOnce() -> R) -> Result<R, String> {
    let r = std::panic::catch_unwind(std::panic::AssertUnwindSafe(f));
    match r {
        Ok(v) => Ok(v),
        Err(e) => {
            let msg = if let Some(s) = e.downcast_ref::<&str>() {
                s.to_string()
            } else if let Some(s) = e.downcast_ref::<String>() {
                s.clone()
            } else {
                "unknown".to_string()
            };
            let class = if msg.contains("overflow") {
                "overflow"
            } else if msg.contains("index out of bounds") || msg.contains("out of range") {
                "index"
            } else if msg.contains("unwrap") || msg.contains("None") {
                "unwrap"
            } else if msg.contains("assert") {
                "assert"
            } else if msg.contains("not yet implemented") || msg.contains("not implemented") {
                "todo"
            } else {
                "explicit"
            };
            Err(format!("panic:{}", class))
        }
    }
}
